//! C11 — validation output is deterministic and ordered by position.

use crate::libx;
use crate::mutate;
use crate::proj::{self, ProjCfg};
use crate::prng::{hash_str, Rng};
use crate::runner::*;
use aidl_parser::{ParseFileResult, Parser};
use serde_json::json;
use std::collections::{BTreeSet, HashMap, HashSet};
use std::io::Write;
use std::process::{Command, Stdio};
use std::time::Duration;

type Res = HashMap<String, ParseFileResult<String>>;

fn validate_in_order(files: &[(String, String)]) -> Res {
    let mut p: Parser<String> = Parser::new();
    for (id, t) in files {
        p.add_content(id.clone(), t);
    }
    p.validate()
}

/// Projects biased to what exposes order dependence.
fn order_project(rng: &mut Rng) -> Vec<(String, String)> {
    let mut files: Vec<(String, String)> = Vec::new();
    let pkgs = ["a", "b", "pkg", "other.pkg"];
    let kinds = ["interface", "parcelable", "enum"];
    // support files; some keys registered by several files with different kinds
    let n_sup = rng.range(2, 6);
    for i in 0..n_sup {
        let pkg = rng.pick_str(&pkgs);
        let name = rng.pick_str(&["Foo", "Bar"]);
        let kind = rng.pick_str(&kinds);
        // annotation parameters live in a HashMap: anything reported per parameter comes out in hash order
        let ann = match rng.below(4) {
            0 => String::new(),
            1 => "@Backing(type=\"short\", size=2, signed=true, extra=1) ".to_string(),
            2 => "@SuppressWarnings(value=\"x\", a=1, b=2, c=3) @JavaDerive(toString=true, equals=true, hash=1, x=2) ".to_string(),
            _ => format!("@{}(p=1, q=2, r=\"s\", t=true) ", rng.pick_str(&["Backing", "VintfStability", "Unknown", "nullable"])),
        };
        files.push((format!("s{i}"), format!("package {pkg}; {ann}{kind} {name} {{ }}")));
    }
    // a file without a tree
    if rng.chance(1, 2) {
        files.push(("broken".into(), mutate::token_soup(rng, 12)));
    }
    // once in a while a file with more than a thousand diagnostics (unknown types) plus hash-ordered import warnings
    if rng.chance(1, 40) {
        let mut s = String::from("package big;\n");
        for k in 0..rng.range(5, 12) {
            s.push_str(&format!("import nope.N{k}; "));
        }
        s.push_str("\ninterface Big {\n");
        let n = rng.range(980, 1100);
        for k in 0..n {
            s.push_str(&format!("Nope{k} m{k}();\n"));
        }
        s.push('}');
        files.push(("big".into(), s));
    }
    // main files: many statements on ONE line
    let n_main = rng.range(1, 3);
    for m in 0..n_main {
        let mut s = format!("package t{m}; ");
        let n_imp = rng.range(3, 9);
        for _ in 0..n_imp {
            s.push_str(&format!("import {}.{}; ", rng.pick_str(&["a", "b", "pkg", "other.pkg", "nope", "zz"]), rng.pick_str(&["Foo", "Bar", "Baz"])));
        }
        let n_dec = rng.below(5);
        for _ in 0..n_dec {
            s.push_str(&format!("parcelable {}; ", rng.pick_str(&["Foo", "Bar", "Fwd", "Fwd2", "q.Fwd"])));
        }
        let multi_line = rng.chance(1, 4);
        s.push_str("interface I { ");
        let n_m = rng.range(1, 6);
        for k in 0..n_m {
            let t1 = rng.pick_str(&["Foo", "Bar", "Baz", "Fwd", "List<Foo>", "Foo[]", "Map<Foo,Bar>", "Nope", "List<int>", "int[][]", "b.Foo", "pkg.Foo"]);
            let t2 = rng.pick_str(&["Foo", "Bar", "int", "Fwd", "List", "Nope2", "Map<int,void>"]);
            let dir = rng.pick_str(&["", "in ", "out ", "inout "]);
            let code = if rng.chance(1, 2) { format!(" = {}", rng.below(3)) } else { String::new() };
            let name = if rng.chance(1, 3) { "same".to_string() } else { format!("m{k}") };
            if rng.chance(1, 5) {
                s.push_str("@UnsupportedAppUsage(maxTargetSdk=1, trackingBug=2, bogus=3, more=4) ");
            }
            // repeated annotations on a method and on its own argument (anything reported per annotation is produced
            // when the enclosing construct is reduced, i.e. inner constructs first)
            let (dup_m, dup_a) = if rng.chance(1, 4) { ("@Dup @Dup @nullable @nullable ", "@Dup2 @Dup2 ") } else { ("", "") };
            s.push_str(dup_m);
            s.push_str(&format!("{}{t1} {name}({dir}{dup_a}{t2} x, {t1} y){code};{}", if rng.chance(1, 4) { "oneway " } else { "" }, if multi_line { "\n" } else { " " }));
            // recovered syntax errors between members: syntax-stage and validation diagnostics interleave
            if rng.chance(1, 4) {
                s.push_str(rng.pick_str(&["int = 3; ", "this is wrong; ", "void bad(; ", "Nope3 overflow() = 99999999999; ", "@X( ; "]));
            }
        }
        match rng.below(8) {
            0 => s.push_str("} trailing garbage"),
            1 => {} // the item is never closed: no tree, only syntax-stage diagnostics
            2 => s.push_str("} }"),
            _ => s.push('}'),
        }
        files.push((format!("main{m}"), s));
    }
    files
}

fn compare(reference: &Res, other: &Res) -> Option<String> {
    if reference.len() != other.len() {
        return Some(format!("{} results vs {}", reference.len(), other.len()));
    }
    let mut ids: Vec<&String> = reference.keys().collect();
    ids.sort();
    for id in ids {
        let (a, b) = (&reference[id], other.get(id)?);
        if a.ast != b.ast {
            return Some(format!("file {id}: trees differ"));
        }
        if a.diagnostics != b.diagnostics {
            let x: Vec<String> = a.diagnostics.iter().map(libx::diag_brief).collect();
            let y: Vec<String> = b.diagnostics.iter().map(libx::diag_brief).collect();
            let mut xs = x.clone();
            let mut ys = y.clone();
            xs.sort();
            ys.sort();
            let how = if xs == ys { "same diagnostics in a different order" } else { "different diagnostics" };
            let first = x.iter().zip(y.iter()).position(|(p, q)| p != q).unwrap_or(x.len().min(y.len()));
            return Some(format!("file {id}: {how}; first difference at index {first}: {:?} vs {:?}", x.get(first), y.get(first)));
        }
    }
    None
}

fn unsorted(res: &Res) -> Option<String> {
    for (id, r) in res {
        for w in r.diagnostics.windows(2) {
            if w[0].range.start.offset > w[1].range.start.offset {
                return Some(format!("file {id}: diagnostic at offset {} listed before diagnostic at offset {} ({:?} / {:?})", w[0].range.start.offset, w[1].range.start.offset, w[0].message, w[1].message));
            }
        }
    }
    None
}

/// `harness C11-worker`: reads a JSON array of [id, text] pairs on stdin, prints the digest of validate()
pub fn worker_main() -> i32 {
    let mut s = String::new();
    if std::io::Read::read_to_string(&mut std::io::stdin(), &mut s).is_err() {
        return 2;
    }
    let files: Vec<(String, String)> = match serde_json::from_str(&s) {
        Ok(f) => f,
        Err(_) => return 2,
    };
    let res = validate_in_order(&files);
    println!("{}", serde_json::to_string(&libx::digest_results(&res)).unwrap_or_default());
    0
}

fn subprocess_digest(files: &[(String, String)]) -> Option<Vec<(String, u64)>> {
    let exe = std::env::current_exe().ok()?;
    let mut child = Command::new(exe).arg("C11-worker").stdin(Stdio::piped()).stdout(Stdio::piped()).stderr(Stdio::null()).spawn().ok()?;
    child.stdin.take()?.write_all(serde_json::to_string(files).ok()?.as_bytes()).ok()?;
    let out = child.wait_with_output().ok()?;
    serde_json::from_slice(&out.stdout).ok()
}

pub fn run(ctx: &Ctx) -> i32 {
    let n = ctx.tier.pick(300u64, 5_000);
    let runs = ctx.tier.pick(60usize, 200);
    let stats = par_cases(ctx, "projects", n, Duration::from_secs(ctx.tier.pick(90, 1500)), |i, rng, st| {
        let files = if i % 3 == 2 { proj::project(rng, &ProjCfg::default()).as_pairs() } else { order_project(rng) };
        let key = hash_str(&files.iter().map(|f| format!("{}\u{1}{}", f.0, f.1)).collect::<Vec<_>>().join("\u{2}"));
        st.inc(if i % 3 == 2 { "projects.generic" } else { "projects.order_biased" });
        let outcome = crate::runner::lib(|| {
            let mut problems: Vec<(String, String)> = Vec::new();
            let mut probe_orders: BTreeSet<String> = BTreeSet::new();
            let probe_names: Vec<String> = files.iter().flat_map(|f| f.1.split(';').filter(|s| s.contains("import")).map(|s| s.trim().to_string()).collect::<Vec<_>>()).take(12).collect();
            let mut probe = |orders: &mut BTreeSet<String>| {
                let hs: HashSet<&String> = probe_names.iter().collect();
                orders.insert(hs.iter().map(|s| hash_str(s).to_string()).collect::<Vec<_>>().join(","));
            };
            // reference: first observed output
            let mut p: Parser<String> = Parser::new();
            for (id, t) in &files {
                p.add_content(id.clone(), t);
            }
            let reference = p.validate();
            let mut n_runs = 1u64;
            let mut check = |what: &str, other: &Res, problems: &mut Vec<(String, String)>| {
                if let Some(d) = compare(&reference, other) {
                    if problems.len() < 4 {
                        problems.push(("output-differs".into(), format!("{what}: {d}")));
                    }
                }
            };
            if let Some(u) = unsorted(&reference) {
                problems.push(("diagnostics-not-ascending".into(), u));
            }
            // big projects (hundreds of members / imports) get fewer repetitions: the cost is per byte
            let bytes: usize = files.iter().map(|f| f.1.len()).sum();
            let runs = if bytes > 12_000 { (runs / 6).max(6) } else { runs };
            let mut r = 0usize;
            while r < runs {
                // same parser again
                let again = p.validate();
                check("same parser, second call", &again, &mut problems);
                n_runs += 1;
                probe(&mut probe_orders);
                // fresh parser, same order
                check("fresh parser, same insertion order", &validate_in_order(&files), &mut problems);
                n_runs += 1;
                // rotation / reversal / shuffle of the insertion order (distinct ids only: replacement order matters otherwise)
                let mut perm = files.clone();
                match r % 3 {
                    0 => perm.rotate_left((r / 3) % files.len().max(1)),
                    1 => perm.reverse(),
                    _ => {
                        let k = (r * 7 + 3) % files.len().max(1);
                        perm.swap(0, k);
                    }
                }
                let other = validate_in_order(&perm);
                if let Some(u) = unsorted(&other) {
                    if !problems.iter().any(|p| p.0 == "diagnostics-not-ascending") {
                        problems.push(("diagnostics-not-ascending".into(), u));
                    }
                }
                check("fresh parser, permuted insertion order", &other, &mut problems);
                n_runs += 1;
                r += 3;
            }
            // the same set of (id, content) pairs reached through replacement: every id first holds another
            // file's content (or nothing parsable), then its own; extra ids are added and removed again
            for variant in 0..3usize {
                let mut p2: Parser<String> = Parser::new();
                for (k, (id, _)) in files.iter().enumerate() {
                    let other = &files[(k + 1 + variant) % files.len()].1;
                    p2.add_content(id.clone(), if variant == 2 { "package broken {" } else { other });
                }
                if variant == 1 {
                    let _ = p2.validate();
                }
                p2.add_content("zz_extra".to_string(), &files[0].1);
                for (id, t) in &files {
                    p2.add_content(id.clone(), t);
                }
                if variant == 0 {
                    let _ = p2.validate();
                }
                p2.remove_content("zz_extra".to_string());
                check("fresh parser, same pairs reached through replacement and removal", &p2.validate(), &mut problems);
                n_runs += 1;
                // without any removal; the earlier contents define keys the project imports but does not define
                // (decoys), or the file's own item with another kind
                let imports = libx::scan_imports(&files);
                let mut p3: Parser<String> = Parser::new();
                for (k, (id, own)) in files.iter().enumerate() {
                    let earlier = match variant {
                        0 if !imports.is_empty() => libx::decoy_for(&imports[k % imports.len()]),
                        1 => own.replacen(" parcelable ", " interface ", 1).replacen(" enum ", " parcelable ", 1),
                        _ => files[(k + 1) % files.len()].1.clone(),
                    };
                    p3.add_content(id.clone(), &earlier);
                }
                if variant == 1 {
                    let _ = p3.validate();
                }
                for (id, t) in &files {
                    p3.add_content(id.clone(), t);
                }
                check("fresh parser, same pairs reached through replacement", &p3.validate(), &mut problems);
                n_runs += 1;
            }
            // other threads: fresh per-thread hash keys
            let thread_results: Vec<(Res, String)> = std::thread::scope(|s| {
                let hs: Vec<_> = (0..8)
                    .map(|_| {
                        s.spawn(|| {
                            let hsx: HashSet<&String> = probe_names.iter().collect();
                            let order = hsx.iter().map(|s| hash_str(s).to_string()).collect::<Vec<_>>().join(",");
                            (validate_in_order(&files), order)
                        })
                    })
                    .collect();
                hs.into_iter().filter_map(|h| h.join().ok()).collect()
            });
            for (res, order) in &thread_results {
                probe_orders.insert(order.clone());
                check("another thread", res, &mut problems);
                n_runs += 1;
            }
            (problems, n_runs, probe_orders.len(), libx::digest_results(&reference), reference.values().filter(|r| r.ast.is_none()).count(), reference.values().map(|r| r.diagnostics.len()).sum::<usize>())
        });
        match outcome {
            Err(p) => {
                st.case(key, true);
                st.violate("projects", i, "panic", format!("library panicked: {p}"), json!({"files": files}));
            }
            Ok((mut problems, n_runs, n_orders, ref_digest, no_tree, n_diags)) => {
                st.case(key, n_diags > 1);
                st.add("validate_runs_compared", n_runs);
                st.max("distinct_hash_iteration_orders_seen_for_one_project(control)", n_orders as u64);
                st.add("distinct_hash_iteration_orders_seen(control,sum)", n_orders as u64);
                st.add("files_without_tree", no_tree as u64);
                st.add("diagnostics_in_reference_outputs", n_diags as u64);
                // other processes (a subset: process start dominates)
                if i % 8 == 0 {
                    for _ in 0..4 {
                        match subprocess_digest(&files) {
                            Some(d) => {
                                st.inc("subprocess_runs_compared");
                                if d != ref_digest {
                                    problems.push(("output-differs".into(), "another process: digest of the result map differs".into()));
                                }
                            }
                            None => {
                                st.inc("subprocess_runs_failed(inconclusive)");
                            }
                        }
                    }
                }
                if st.want_sample() && n_diags > 4 && files.iter().all(|f| f.1.len() < 700) {
                    st.sample(json!({"files": files, "diagnostics_in_reference": n_diags}));
                }
                if let Some((sig, what)) = problems.first() {
                    st.violate("projects", i, sig, what.chars().take(600).collect(), json!({"files": files, "problems": problems.iter().map(|p| format!("{}: {}", p.0, p.1)).collect::<Vec<_>>()}));
                }
            }
        }
    });
    finish(
        ctx,
        stats,
        Meta {
            rule: "projects biased to expose order dependence (several imports / declarations on one line, several imports with the same simple name, several files registering one key with different kinds, files without a tree, diagnostics of different passes on one line) plus generic generated projects; for each project the first validate() output is the reference and every further run must equal it element-wise (trees and diagnostic vectors): same parser again, fresh parser, rotated / reversed / swapped insertion order, 8 other threads (fresh per-thread hash keys), 4 other processes (digest); every diagnostic vector must ascend in start offset; non-trivial if the reference output holds at least two diagnostics".into(),
            assumptions: vec!["hash-seed variety comes from std's per-instance RandomState; the number of distinct iteration orders of a probe HashSet built alongside each run is reported as a control measurement".into()],
            exhaustive: false,
            extra: Default::default(),
            min_nontrivial: 10,
        },
    )
}
