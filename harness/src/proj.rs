//! Project generator: 1-6 files with controlled naming relations between
//! type references, imports, forward declarations and the items defined in
//! the project (adversarially similar names, partial qualification, built-ins).

use crate::gen::{self, GenCfg, LayoutStyle};
use crate::model::*;
use crate::prng::Rng;
use aidl_parser::ast::AndroidTypeKind;

pub const PACKAGES: &[&str] = &["pkg", "other.pkg", "pkg.sub", "a", "a.b.c.d", "x.pkg", "apkg", "xpkg"];
/// keys nobody defines: used both as imports and as qualified forward declarations (in different files)
pub const PHANTOM_KEYS: &[&str] = &["nope.Missing", "nope.Foo", "q.Fwd", "q.Baz", "ghost.pkg.Bar", "nope.IBinder"];
pub const ITEM_NAMES: &[&str] = &["Foo", "XFoo", "FooX", "Bar", "Fo", "IFoo", "Foo2", "oo", "Baz", "Array", "Level", "foo", "FOO"];

pub fn builtin_qualified() -> Vec<String> {
    [AndroidTypeKind::IBinder, AndroidTypeKind::FileDescriptor, AndroidTypeKind::ParcelFileDescriptor, AndroidTypeKind::ParcelableHolder]
        .iter()
        .map(|k| k.get_qualified_name().to_string())
        .collect()
}
pub const BUILTIN_SIMPLE: &[&str] = &["IBinder", "FileDescriptor", "ParcelFileDescriptor", "ParcelableHolder"];

#[derive(Clone, Debug)]
pub struct ProjCfg {
    pub max_files: usize,
    /// several files may register the same key (with different kinds)
    pub allow_collisions: bool,
    /// a file may import two different names with the same simple name
    pub allow_ambiguous: bool,
    pub max_members: usize,
    pub max_type_depth: usize,
    pub kind_bias: Option<ItemKind>,
    /// 1 in 12 files carries one malformed member (recovered by the parser)
    pub broken_files: bool,
}

impl Default for ProjCfg {
    fn default() -> Self {
        ProjCfg { max_files: 6, allow_collisions: true, allow_ambiguous: true, max_members: 5, max_type_depth: 4, kind_bias: None, broken_files: true }
    }
}

#[derive(Clone, Debug)]
pub struct ProjFile {
    pub id: String,
    pub doc: Doc,
    pub text: String,
}

#[derive(Clone, Debug)]
pub struct Proj {
    pub files: Vec<ProjFile>,
}

impl Proj {
    pub fn as_pairs(&self) -> Vec<(String, String)> {
        self.files.iter().map(|f| (f.id.clone(), f.text.clone())).collect()
    }
}

fn split(q: &str) -> Vec<String> {
    q.split('.').map(|s| s.to_string()).collect()
}

fn near_miss(rng: &mut Rng, key: &str) -> String {
    let segs = split(key);
    let (pkg, name) = (segs[..segs.len() - 1].join("."), segs[segs.len() - 1].clone());
    match rng.below(11) {
        0 => format!("{pkg}.X{name}"),
        1 => format!("{pkg}.{name}X"),
        2 => format!("other.{pkg}.{name}"),
        3 => format!("{pkg}x.{name}"),
        4 if name.len() > 1 => format!("{pkg}.{}", &name[1..]),
        5 => format!("x{pkg}.{name}"),
        6 => format!("{pkg}.{name}{name}"),
        // an import that names something "inside" a registered item / whose prefix is a registered key
        7 => format!("{pkg}.{name}.Inner"),
        8 => format!("{pkg}.{name}.{name}"),
        // the qualifier only shares a tail of a segment (x.apkg.Foo vs pkg.Foo)
        9 => format!("x.a{pkg}.{name}"),
        _ => format!("nope.{name}"),
    }
}

pub fn render_text(doc: &Doc, rng: &mut Rng) -> String {
    let r = gen::render(doc);
    let style = *rng.pick(&[LayoutStyle::Spaces, LayoutStyle::Spaces, LayoutStyle::Plain]);
    gen::layout(&r.toks, rng, style, &r.forced).text
}

/// Like render_text, but once in a while one malformed member (`= = ;`, or `= = ,` in an enum) is spliced in
/// front of a member or before the closing brace: the file still yields a tree (error recovery) plus a syntax
/// diagnostic, and every validation rule must apply to that tree as to any other.
pub fn render_text_maybe_broken(doc: &Doc, rng: &mut Rng) -> String {
    if !rng.chance(1, 12) {
        return render_text(doc, rng);
    }
    let r = gen::render(doc);
    let item = &r.exp.item;
    let n = item.children.len();
    let pos = rng.below(n + 1);
    let at = if pos < n { item.children[pos].anchor } else { item.last };
    let sym = |t: &str, k: crate::reflex::K| gen::Tok { text: t.to_string(), kind: k };
    use crate::reflex::K;
    let is_enum = doc.item.kind == ItemKind::Enum;
    let mut toks: Vec<gen::Tok>;
    let variant = rng.below(4);
    if !is_enum && n > 0 && variant == 1 {
        // a member loses its terminator (the next member's first token becomes the offending token)
        let k = rng.below(n);
        let term = item.children[k].term.unwrap_or(item.last);
        toks = r.toks[..term].to_vec();
        toks.extend_from_slice(&r.toks[term + 1..]);
    } else if !is_enum && variant == 2 {
        // an empty member
        toks = r.toks[..at].to_vec();
        toks.push(sym(";", K::Semi));
        toks.extend_from_slice(&r.toks[at..]);
    } else {
        toks = r.toks[..at].to_vec();
        if is_enum && pos == n && n > 0 && !doc.item.trailing_comma {
            toks.push(sym(",", K::Comma));
        }
        toks.push(sym("=", K::Eq));
        toks.push(sym("=", K::Eq));
        toks.push(if is_enum { sym(",", K::Comma) } else { sym(";", K::Semi) });
        toks.extend_from_slice(&r.toks[at..]);
    }
    let style = *rng.pick(&[LayoutStyle::Spaces, LayoutStyle::Plain]);
    gen::layout(&toks, rng, style, &Default::default()).text
}

pub fn project(rng: &mut Rng, cfg: &ProjCfg) -> Proj {
    // once in a while a project with many (small) files
    let many = cfg.max_files >= 6 && rng.chance(1, 150);
    let n = if many { *rng.pick(&[31usize, 32, 33, 64, 65, 70]) } else { rng.range(1, cfg.max_files) };
    // 1. headers
    let mut heads: Vec<(String, String, ItemKind)> = Vec::new();
    for _ in 0..n {
        for _attempt in 0..20 {
            let pkg = if many { format!("m{}.{}", rng.below(12), rng.pick_str(PACKAGES)) } else { rng.pick_str(PACKAGES).to_string() };
            let name = rng.pick_str(ITEM_NAMES).to_string();
            let kind = *rng.pick(&[ItemKind::Interface, ItemKind::Parcelable, ItemKind::Enum]);
            let key = format!("{pkg}.{name}");
            let collides = heads.iter().any(|h| format!("{}.{}", h.0, h.1) == key);
            if collides && !(cfg.allow_collisions && rng.chance(1, 3)) {
                continue;
            }
            heads.push((pkg, name, kind));
            break;
        }
    }
    if heads.is_empty() {
        heads.push(("pkg".into(), "Foo".into(), ItemKind::Parcelable));
    }
    // very rarely the project itself ships a file under the qualified name of an Android built-in: the import then
    // names a file in the parser, and the kind is that file's (first clause of C05)
    if cfg.allow_collisions && rng.chance(1, 80) {
        let b = rng.pick(&builtin_qualified()).clone();
        let (bp, bn) = b.rsplit_once('.').unwrap();
        heads.push((bp.to_string(), bn.to_string(), *rng.pick(&[ItemKind::Interface, ItemKind::Parcelable, ItemKind::Enum])));
    }
    let keys: Vec<String> = heads.iter().map(|h| format!("{}.{}", h.0, h.1)).collect();
    let builtins = builtin_qualified();
    let mut files = Vec::new();
    for (fi, (pkg, name, kind)) in heads.iter().enumerate() {
        // the file that uses types most is an interface or a parcelable; enums carry no types
        let kind = match cfg.kind_bias {
            Some(k) if fi == 0 => k,
            _ => *kind,
        };
        // 2. imports
        let mut imports: Vec<String> = Vec::new();
        let ni = rng.below(5);
        for _ in 0..ni {
            let cand = match rng.below(12) {
                0..=4 => rng.pick(&keys).clone(),
                5 | 6 => {
                    let k = rng.pick(&keys).clone();
                    near_miss(rng, &k)
                }
                7 | 8 => rng.pick(&builtins).clone(),
                9 if !imports.is_empty() => rng.pick(&imports).clone(), // duplicate
                10 => format!("{}.{}", rng.pick_str(PACKAGES), rng.pick_str(ITEM_NAMES)),
                _ => {
                    if rng.chance(1, 3) {
                        crate::vocab::dotted(rng).unwrap_or_else(|| rng.pick_str(PHANTOM_KEYS).to_string())
                    } else if rng.chance(1, 2) {
                        rng.pick_str(PHANTOM_KEYS).to_string()
                    } else {
                        rng.pick_str(gen::REAL_WORLD_IMPORTS).to_string()
                    }
                }
            };
            if !cfg.allow_ambiguous {
                let simple = cand.rsplit('.').next().unwrap().to_string();
                if imports.iter().any(|i| *i != cand && i.rsplit('.').next().unwrap() == simple) {
                    continue;
                }
            }
            imports.push(cand);
        }
        // 3. forward declarations
        let mut declared: Vec<Declared> = Vec::new();
        let nd = rng.below(4);
        for _ in 0..nd {
            let segs = match rng.below(8) {
                0..=2 => vec![rng.pick_str(&["Fwd", "Decl", "Baz", "Fwd2"]).to_string()],
                3 if !imports.is_empty() => vec![rng.pick(&imports).rsplit('.').next().unwrap().to_string()], // shadowed by an import
                4 => split(rng.pick_str(PHANTOM_KEYS)),
                5 if !declared.is_empty() => rng.pick(&declared).segs.clone(), // duplicate
                6 => vec![rng.pick_str(ITEM_NAMES).to_string()],
                _ => vec![rng.pick_str(&["Fwd", "IBinder"]).to_string()],
            };
            declared.push(Declared { anns: gen::annotations(rng, 1, 8), segs });
        }
        // 4. the pool of type names this file refers to
        let mut pool: Vec<String> = Vec::new();
        for i in &imports {
            let segs = split(i);
            pool.push(segs[segs.len() - 1].clone());
            pool.push(i.clone());
            if segs.len() > 2 {
                pool.push(segs[segs.len() - 2..].join("."));
            }
            let simple = &segs[segs.len() - 1];
            pool.push(format!("X{simple}"));
            pool.push(format!("{simple}X"));
            if simple.len() > 1 {
                pool.push(simple[1..].to_string());
            }
            pool.push(format!("other.{i}"));
            // partial qualification cut inside a segment (kg.Foo for other.pkg.Foo): must not match
            if segs.len() >= 2 && segs[segs.len() - 2].len() > 1 {
                pool.push(format!("{}.{}", &segs[segs.len() - 2][1..], simple));
            }
            // a name the import merely repeats (pkg.FooFoo vs Foo)
            let h = simple.len() / 2;
            if simple.len() >= 2 && simple.len() % 2 == 0 && simple[..h] == simple[h..] {
                pool.push(simple[..h].to_string());
                if segs.len() > 1 {
                    pool.push(format!("{}.{}", segs[segs.len() - 2], &simple[..h]));
                }
            }
        }
        // names other files may forward-declare (declarations are per file: they must not leak)
        for d in ["Fwd", "Decl", "Fwd2"] {
            pool.push(d.to_string());
        }
        // many imports (with repeats) once in a while
        if rng.chance(1, 40) {
            let extra = rng.range(30, 60);
            let base: Vec<String> = imports.iter().cloned().chain(keys.iter().cloned()).chain((0..6).map(|k| format!("many.Imp{k}"))).collect();
            for _ in 0..extra {
                let mut cand = rng.pick(&base).clone();
                if rng.chance(1, 2) {
                    cand = format!("many.pkg{}.I{}", rng.below(8), rng.below(12));
                }
                if !cfg.allow_ambiguous {
                    let simple = cand.rsplit('.').next().unwrap().to_string();
                    if imports.iter().any(|i| *i != cand && i.rsplit('.').next().unwrap() == simple) {
                        continue;
                    }
                }
                imports.push(cand);
            }
        }
        for d in &declared {
            pool.push(d.segs.join("."));
            pool.push(d.segs[d.segs.len() - 1].clone());
        }
        for b in BUILTIN_SIMPLE {
            pool.push(b.to_string());
        }
        pool.push("android.os.ParcelFileDescriptor".into());
        pool.push("android.os.IBinder".into());
        pool.push(name.clone());
        pool.push(format!("{pkg}.{name}"));
        for (p2, n2, _) in &heads {
            if p2 == pkg {
                pool.push(n2.clone());
            }
            pool.push(format!("{p2}.{n2}"));
        }
        pool.push("Nope".into());
        pool.push("nope.Nope".into());
        let customs: Vec<Vec<String>> = pool.iter().map(|s| split(s)).collect();
        let gcfg = GenCfg { kind: Some(kind), max_members: if many { 2 } else { cfg.max_members }, max_type_depth: cfg.max_type_depth, max_args: 3, customs, ann_num: 1, ann_den: 8, allow_overflow_codes: true, deep_types: true, big: true, repeat_method_names: true, ..GenCfg::default() };
        let mut item = gen::item(rng, &gcfg);
        item.name = name.clone();
        // method names: bias toward repeats, codes toward repeats (C09)
        let doc = Doc { package: split(pkg), imports: imports.iter().map(|i| split(i)).collect(), declared, item };
        let text = if cfg.broken_files { render_text_maybe_broken(&doc, rng) } else { render_text(&doc, rng) };
        files.push(ProjFile { id: format!("f{fi}"), doc, text });
    }
    Proj { files }
}

/// Support files for directed/exhaustive cells: every resolvable category exists.
pub const SUPPORT: &[(&str, &str)] = &[
    ("s_iface", "package s; interface IFace { void ping(); }"),
    ("s_parc", "package s; parcelable Parc { int x; }"),
    ("s_enum", "package s; enum En { A, B }"),
];

pub const SUPPORT_HEADER: &str = "package t; import s.IFace; import s.Parc; import s.En; import u.Unknown; parcelable Fwd;";

/// 17 type categories reachable from source, with a source text for each (in the context of SUPPORT_HEADER).
pub const CATEGORIES: &[(&str, &str)] = &[
    ("primitive", "int"),
    ("void", "void"),
    ("String", "String"),
    ("CharSequence", "CharSequence"),
    ("array", "int[]"),
    ("list", "List<String>"),
    ("map", "Map<String,String>"),
    ("IBinder", "IBinder"),
    ("FileDescriptor", "FileDescriptor"),
    ("ParcelFileDescriptor", "ParcelFileDescriptor"),
    ("ParcelableHolder", "ParcelableHolder"),
    ("interface", "IFace"),
    ("parcelable", "Parc"),
    ("enum", "En"),
    ("forward_declared", "Fwd"),
    ("unknown_import", "Unknown"),
    ("unresolved", "Nope"),
];

pub fn with_support(main_text: &str) -> Vec<(String, String)> {
    let mut v: Vec<(String, String)> = vec![("main".to_string(), main_text.to_string())];
    for (id, t) in SUPPORT {
        v.push((id.to_string(), t.to_string()));
    }
    v
}
