//! Generators: random well-formed documents (model), rendering to a token
//! table with an expectation tree (token indices per construct), and layouts.

use crate::model::*;
use crate::prng::Rng;
use crate::reflex::{self, K};
use crate::vocab;

// ---------------------------------------------------------------------------
// Names

pub const NEAR_KEYWORDS: &[&str] = &[
    "inout2", "Listing", "int_", "interfaces", "Strings", "doubles", "voidx", "trueish", "_", "a1", "inx", "outer", "Maps",
    "CharSequences", "imports", "packages", "enums", "constant", "onewayx", "parcelables", "falsey", "bytes", "longer",
    "charm", "booleans", "floats", "shorts", "forx", "ifs", "classy", "newer", "thisx", "trys", "dox", "_in", "in_", "List_",
    "Map2", "String1", "IBinderX", "XIBinder", "iBinder", "__", "_1", "A", "z9",
    // case variants of keywords / literals (identifiers, since the lexer is case-sensitive)
    "TRUE", "FALSE", "True", "IN", "OUT", "INOUT", "Void", "VOID", "INT", "Int", "Interface", "INTERFACE", "ONEWAY", "OneWay", "CONST", "Const",
    "Parcelable", "PARCELABLE", "LIST", "list", "string", "STRING", "charSequence", "Enum", "ENUM", "IMPORT", "Import", "Package", "PACKAGE", "Boolean",
    "Byte", "null", "NULL", "Class", "For",
    // names with a meaning in the AIDL / Java / Android world
    "getInterfaceVersion", "getInterfaceHash", "getTransactionName", "asBinder", "toString", "equals", "hashCode", "describeContents", "writeToParcel",
    "readFromParcel", "CREATOR", "Stub", "Proxy", "Default", "DESCRIPTOR", "VERSION", "HASH", "android", "os", "java", "lang", "Object",
    // names the library uses internally, misspelt keywords
    "Array", "Unresolved", "Primitive", "cons", "conts", "interfac", "interfaces", "enumm", "packag", "parcelabl", "onewa", "imprt", "voi", "vod",
    "type", "value", "A", "B", "LOW", "HIGH", "NONE",
];

pub fn ident(rng: &mut Rng) -> String {
    if rng.chance(1, 4) {
        return rng.pick(NEAR_KEYWORDS).to_string();
    }
    if rng.chance(1, 12) {
        // a word the library's own source mentions (harvested dictionary)
        if let Some(w) = vocab::ident(rng) {
            return w;
        }
    }
    if rng.chance(1, 250) {
        // length boundaries (fixed ones and the numbers the source mentions)
        let n = match vocab::threshold(rng, 5000) {
            Some(t) if rng.chance(1, 2) => t.max(2),
            _ => *rng.pick(&[31usize, 32, 33, 63, 64, 65, 127, 128, 129, 255, 256, 257, 1000]),
        };
        return format!("L{}", "x".repeat(n - 1));
    }
    let first = b"abcdefghijklmnopqrstuvwxyzABCDEFGHIJKLMNOPQRSTUVWXYZ_";
    let rest = b"abcdefghijklmnopqrstuvwxyzABCDEFGHIJKLMNOPQRSTUVWXYZ_0123456789";
    loop {
        let n = rng.range(1, 8);
        let mut s = String::new();
        s.push(first[rng.below(first.len())] as char);
        for _ in 1..n {
            s.push(rest[rng.below(rest.len())] as char);
        }
        if !reflex::is_non_ident_word(&s) {
            return s;
        }
    }
}

pub fn upper_ident(rng: &mut Rng) -> String {
    const POOL: &[&str] = &["Foo", "Bar", "Baz", "Qux", "Item", "Data", "IService", "Thing", "Node", "Blob", "XFoo", "FooX", "Fo", "Foo2", "Array", "Unresolved", "Object", "Status", "Level"];
    if rng.chance(2, 3) {
        rng.pick(POOL).to_string()
    } else {
        let mut s = ident(rng);
        if s.as_bytes()[0].is_ascii_lowercase() {
            s = format!("T{s}");
        }
        s
    }
}

pub fn qualified(rng: &mut Rng, min: usize, max: usize) -> Vec<String> {
    let n = if rng.chance(1, 200) { *rng.pick(&[8usize, 16, 17, 32, 33, 64]) } else { rng.range(min, max) };
    (0..n).map(|_| ident(rng)).collect()
}

/// qualified names that mean something in the Android / Java world (a maintainer's special cases key on such names)
pub const REAL_WORLD_IMPORTS: &[&str] = &[
    "android.os.IBinder", "android.os.ParcelFileDescriptor", "android.os.ParcelableHolder", "java.os.FileDescriptor", "java.io.FileDescriptor", "android.os.Bundle",
    "android.os.PersistableBundle", "android.os.Parcelable", "android.os.IInterface", "android.os.IBinder.DeathRecipient", "android.content.Intent", "android.net.Uri",
    "java.util.ArrayList", "java.util.HashMap", "java.lang.Integer", "java.lang.Object", "android.os.ParcelFileDescriptor.AutoCloseInputStream",
];

pub const PRIMS: &[&str] = &["byte", "short", "int", "long", "float", "double", "boolean", "char"];

// ---------------------------------------------------------------------------
// Literals

pub fn integer_lit(rng: &mut Rng) -> String {
    if rng.chance(1, 10) {
        if let Some(n) = vocab::number_u32(rng) {
            return if rng.chance(1, 5) { format!("0{n}") } else { n.to_string() };
        }
    }
    if rng.chance(1, 8) {
        // boundary values (all fit u32)
        return rng.pick_str(&["255", "256", "65535", "65536", "16777214", "16777215", "16777216", "2147483647", "2147483648", "4294967294", "4294967295", "0000000001", "1"]).to_string();
    }
    match rng.below(6) {
        0 => "0".into(),
        1 => format!("{}", rng.below(10)),
        2 => format!("{}", rng.below(100000)),
        3 => format!("00{}", rng.below(100)),
        4 => rng.pick_str(&["4294967295", "16777214", "16777213", "16777215"]).to_string(),
        _ => format!("{}", rng.next_u64() % 4294967296),
    }
}

pub fn float_lit(rng: &mut Rng) -> String {
    if rng.chance(1, 12) {
        // FLOAT is `[+-]?(\d*\.)?\d+f?` with Unicode \d: digits of other scripts are part of the language
        return rng.pick_str(&["٣", "１.５", "-٣f", "٠.٥", "+３", "１２３"]).to_string();
    }
    match rng.below(8) {
        0 => format!("-{}", rng.below(1000)),
        1 => format!("+{}", rng.below(1000)),
        2 => format!("{}.{}", rng.below(100), rng.below(100)),
        3 => format!(".{}", rng.below(100)),
        4 => format!("{}f", rng.below(100)),
        5 => format!("-.{}f", rng.below(10)),
        6 => format!("-{}.{}f", rng.below(10), rng.below(1000)),
        _ => format!("{}.0", rng.below(10)),
    }
}

pub const STRING_CHARS: &[&str] = &[
    "a", "b", "Z", "0", " ", "  ", "\t", "é", "ß", "漢", "字", "😀", "e\u{301}", "//", "/*", "*/", "/**", "*", "/", "'", "\\", "\\n", ";", "{", "}", "(", ")",
    ",", "=", "@", "<", ">", "interface", "in", "\u{a0}", "\u{2028}", "\u{feff}", "%", "#",
];

pub fn string_lit(rng: &mut Rng) -> String {
    let n = rng.below(6);
    let mut s = String::from("\"");
    for _ in 0..n {
        if rng.chance(1, 12) {
            if let Some(c) = vocab::special_char(rng) {
                if c != '"' && c != '\n' && c != '\r' {
                    s.push(c);
                    continue;
                }
            }
            if let Some(w) = vocab::word(rng) {
                if !w.contains('"') {
                    s.push_str(&w);
                    continue;
                }
            }
        }
        s.push_str(rng.pick_str(STRING_CHARS));
    }
    if rng.chance(1, 200) {
        // a literal whose length sits at a number the source mentions
        if let Some(t) = vocab::threshold(rng, 5000) {
            while s.len() < t {
                s.push_str(rng.pick_str(&["a", "é", "漢", " "]));
            }
        }
    }
    s.push('"');
    s
}

pub fn scalar_lit(rng: &mut Rng) -> String {
    match rng.below(5) {
        0 => integer_lit(rng),
        1 => float_lit(rng),
        2 => string_lit(rng),
        3 => "true".into(),
        _ => "false".into(),
    }
}

pub fn value(rng: &mut Rng, depth: usize) -> Val {
    match rng.below(if depth >= 2 { 6 } else { 9 }) {
        0..=3 => Val::Scalar(scalar_lit(rng)),
        4 => Val::Empty,
        5 => Val::Dotted(ident(rng), ident(rng)),
        _ => {
            let nf = rng.range(1, 3);
            let nr = rng.below(3);
            Val::Braces {
                first: (0..nf).map(|_| value(rng, depth + 1)).collect(),
                rest: (0..nr).map(|_| value(rng, depth + 1)).collect(),
                trailing_comma: rng.chance(1, 3),
            }
        }
    }
}

/// annotations the AIDL world knows, with their usual parameter names
pub const AIDL_ANNOTATIONS: &[(&str, &[&str])] = &[
    ("Backing", &["type"]),
    ("SuppressWarnings", &["value"]),
    ("JavaDerive", &["toString", "equals"]),
    ("RustDerive", &["Clone", "Copy", "PartialEq"]),
    ("nullable", &["heap"]),
    ("UnsupportedAppUsage", &["maxTargetSdk", "trackingBug", "expectedSignature", "publicAlternatives"]),
    ("Descriptor", &["value"]),
    ("Enforce", &["condition"]),
    ("JavaPassthrough", &["annotation"]),
    ("VintfStability", &[]),
    ("Hide", &[]),
    ("FixedSize", &[]),
    ("SensitiveData", &[]),
    ("JavaDefault", &[]),
    ("JavaDelegator", &[]),
    ("PermissionManuallyEnforced", &[]),
    ("RequiresNoPermission", &[]),
    ("PropagateAllowBlocking", &[]),
    ("JavaOnlyStableParcelable", &[]),
    ("NdkOnlyStableParcelable", &[]),
    ("utf8InCpp", &[]),
    ("Deprecated", &["note"]),
    ("Override", &[]),
];

pub fn annotation(rng: &mut Rng) -> Ann {
    if rng.chance(1, 3) {
        let (name, keys) = *rng.pick(AIDL_ANNOTATIONS);
        let params = if keys.is_empty() && rng.chance(2, 3) {
            None
        } else {
            let mut v: Vec<(String, Option<String>)> = Vec::new();
            for k in keys.iter() {
                if rng.chance(2, 3) {
                    let val = match rng.below(6) {
                        0 => None,
                        1 => Some(rng.pick_str(&["1", "0", "7", "true", "\"\"", "\"x\""]).to_string()),
                        2 => Some(rng.pick_str(&["\"byte\"", "\"int\"", "\"long\"", "\"short\"", "\"all\"", "\"unused\""]).to_string()),
                        _ => Some(scalar_lit(rng)),
                    };
                    v.push((k.to_string(), val));
                }
            }
            if rng.chance(1, 5) {
                v.push((ident(rng), Some(scalar_lit(rng))));
            }
            Some(v)
        };
        let trailing_comma = params.as_ref().map_or(false, |p| !p.is_empty() && rng.chance(1, 4));
        return Ann { name: name.to_string(), params, trailing_comma };
    }
    const NAMES: &[&str] = &["nullable", "utf8InCpp", "Backing", "VintfStability", "JavaOnlyStableParcelable", "A", "X_1", "_x", "in", "int", "for", "List"];
    let name = if rng.chance(1, 8) { vocab::ident(rng).unwrap_or_else(|| ident(rng)) } else if rng.chance(3, 4) { rng.pick(NAMES).to_string() } else { ident(rng) };
    let params = if rng.chance(1, 2) {
        let n = if rng.chance(1, 300) { rng.range(31, 40) } else { rng.below(4) };
        let mut v = Vec::new();
        for _ in 0..n {
            let mut k = ident(rng);
            if !v.is_empty() && rng.chance(1, 5) {
                // the same parameter name again, or a case variant of it
                let prev: &(String, Option<String>) = rng.pick(&v);
                let prev = prev.0.clone();
                k = match rng.below(3) {
                    0 => prev,
                    1 => prev.to_uppercase(),
                    _ => prev.to_lowercase(),
                };
                if reflex::is_non_ident_word(&k) {
                    k = format!("{k}_");
                }
            }
            let val = if rng.chance(2, 3) { Some(scalar_lit(rng)) } else { None };
            v.push((k, val));
        }
        Some(v)
    } else {
        None
    };
    let trailing_comma = params.as_ref().map_or(false, |p| !p.is_empty() && rng.chance(1, 3));
    Ann { name, params, trailing_comma }
}

pub fn annotations(rng: &mut Rng, p_num: usize, p_den: usize) -> Vec<Ann> {
    let mut v: Vec<Ann> = Vec::new();
    if rng.chance(p_num, p_den) {
        let n = if rng.chance(1, 300) { rng.range(31, 40) } else { rng.range(1, 3) };
        for _ in 0..n {
            if !v.is_empty() && rng.chance(1, 6) {
                // the same annotation twice
                let again: Ann = rng.pick(&v).clone();
                v.push(again);
            } else {
                v.push(annotation(rng));
            }
        }
    }
    v
}

// ---------------------------------------------------------------------------
// Types

pub fn leaf_ty(rng: &mut Rng, customs: &[Vec<String>]) -> Ty {
    match rng.below(10) {
        0 => Ty::Void,
        1 | 2 => Ty::Prim(rng.pick(PRIMS).to_string()),
        3 => Ty::Str,
        4 => Ty::CharSeq,
        5 => Ty::List(None),
        6 => Ty::Map(None),
        _ => {
            if rng.chance(1, 8) {
                // the Android built-ins, simple and qualified, and other names the Android world knows
                let n = rng.pick_str(&[
                    "IBinder", "ParcelFileDescriptor", "FileDescriptor", "ParcelableHolder", "android.os.ParcelFileDescriptor", "android.os.IBinder",
                    "java.os.FileDescriptor", "java.io.FileDescriptor", "android.os.ParcelableHolder", "Bundle", "android.os.Bundle", "Intent", "Uri", "Object",
                ]);
                return Ty::custom(n);
            }
            if rng.chance(1, 12) {
                if let Some(d) = if rng.chance(1, 2) { vocab::dotted(rng) } else { vocab::ident(rng) } {
                    return Ty::custom(&d);
                }
            }
            if !customs.is_empty() && rng.chance(2, 3) {
                Ty::Custom(rng.pick(customs).clone())
            } else {
                let n = rng.range(1, 3);
                let mut segs: Vec<String> = (1..n).map(|_| ident(rng)).collect();
                segs.push(upper_ident(rng));
                Ty::Custom(segs)
            }
        }
    }
}

/// a chain nested `depth` levels (arrays / lists / map values) over a leaf
pub fn deep_chain_ty(rng: &mut Rng, depth: usize, customs: &[Vec<String>]) -> Ty {
    let mut t = leaf_ty(rng, customs);
    for _ in 0..depth {
        t = match rng.below(3) {
            0 => Ty::Array(Box::new(t)),
            1 => Ty::List(Some(Box::new(t))),
            _ => Ty::Map(Some(Box::new((Ty::Str, t)))),
        };
    }
    t
}

pub fn ty_cfg(rng: &mut Rng, cfg: &GenCfg, max_depth: usize) -> Ty {
    if cfg.deep_types && rng.chance(1, 60) {
        let d = match vocab::threshold(rng, 300) {
            Some(t) if rng.chance(1, 4) => t,
            _ => {
                if rng.chance(1, 3) {
                    *rng.pick(&[15usize, 16, 17, 31, 32, 33, 63, 64, 65, 127, 128, 129, 254, 255, 256, 257, 300])
                } else {
                    rng.range(30, 64)
                }
            }
        };
        return deep_chain_ty(rng, d, &cfg.customs);
    }
    ty(rng, max_depth, &cfg.customs)
}

pub fn ty(rng: &mut Rng, max_depth: usize, customs: &[Vec<String>]) -> Ty {
    if max_depth == 0 || rng.chance(2, 5) {
        return leaf_ty(rng, customs);
    }
    match rng.below(3) {
        0 => Ty::Array(Box::new(ty(rng, max_depth - 1, customs))),
        1 => Ty::List(Some(Box::new(ty(rng, max_depth - 1, customs)))),
        _ => Ty::Map(Some(Box::new((ty(rng, max_depth - 1, customs), ty(rng, max_depth - 1, customs))))),
    }
}

// ---------------------------------------------------------------------------
// Documents

#[derive(Clone, Debug)]
pub struct GenCfg {
    pub max_members: usize,
    pub max_args: usize,
    pub max_type_depth: usize,
    pub ann_num: usize,
    pub ann_den: usize,
    pub kind: Option<ItemKind>,
    pub max_imports: usize,
    pub max_declared: usize,
    /// custom type names to favour
    pub customs: Vec<Vec<String>>,
    /// transact codes may overflow u32 (never for C02-style model comparisons)
    pub allow_overflow_codes: bool,
    /// occasionally a type nested 33-64 levels deep
    pub deep_types: bool,
    /// occasionally an item with 33-80 members / a file with 33-70 imports
    pub big: bool,
    /// method names sometimes repeat earlier ones
    pub repeat_method_names: bool,
}

impl Default for GenCfg {
    fn default() -> Self {
        GenCfg { max_members: 6, max_args: 4, max_type_depth: 4, ann_num: 1, ann_den: 4, kind: None, max_imports: 3, max_declared: 2, customs: vec![], allow_overflow_codes: false, deep_types: false, big: false, repeat_method_names: false }
    }
}

pub fn arg(rng: &mut Rng, cfg: &GenCfg) -> Arg {
    Arg {
        dir: if rng.chance(1, 2) { Some(rng.pick(&["in", "out", "inout"]).to_string()) } else { None },
        anns: annotations(rng, cfg.ann_num, cfg.ann_den * 2),
        ty: ty_cfg(rng, cfg, cfg.max_type_depth),
        name: if rng.chance(3, 4) { Some(ident(rng)) } else { None },
        pre: Pre::default(),
    }
}

pub fn method(rng: &mut Rng, cfg: &GenCfg) -> Member {
    let nargs = if cfg.big && rng.chance(1, 150) {
        if rng.chance(1, 4) {
            *rng.pick(&[127usize, 128, 129, 255, 256, 257])
        } else {
            rng.range(31, 70)
        }
    } else {
        rng.below(cfg.max_args + 1)
    };
    let args: Vec<Arg> = (0..nargs).map(|_| arg(rng, cfg)).collect();
    Member::Method {
        anns: annotations(rng, cfg.ann_num, cfg.ann_den),
        oneway: rng.chance(1, 4),
        ret: ty_cfg(rng, cfg, cfg.max_type_depth),
        name: ident(rng),
        args_trailing_comma: !args.is_empty() && rng.chance(1, 5),
        args,
        code: if rng.chance(1, 3) {
            if cfg.allow_overflow_codes && rng.chance(1, 8) {
                Some(rng.pick_str(&["4294967296", "99999999999", "18446744073709551616", "004294967296"]).to_string())
            } else {
                Some(integer_lit(rng))
            }
        } else {
            None
        },
        pre: Pre::default(),
    }
}

pub fn constant(rng: &mut Rng, cfg: &GenCfg) -> Member {
    Member::Const {
        anns: annotations(rng, cfg.ann_num, cfg.ann_den),
        ty: ty(rng, cfg.max_type_depth.min(2), &cfg.customs),
        name: ident(rng),
        value: value(rng, 0),
        pre: Pre::default(),
    }
}

pub const ELEMENT_NAMES: &[&str] = &["A", "B", "C", "LOW", "HIGH", "NONE", "VALUE1", "VALUE2", "OK", "FAIL"];

pub fn field(rng: &mut Rng, cfg: &GenCfg) -> Member {
    let t = ty_cfg(rng, cfg, cfg.max_type_depth);
    let mut v = if rng.chance(1, 3) { Some(value(rng, 0)) } else { None };
    if let Ty::Custom(segs) = &t {
        // a default that names an element of the field's own (enum) type: Level.LOW
        if rng.chance(1, 3) {
            v = Some(Val::Dotted(segs[segs.len() - 1].clone(), rng.pick_str(ELEMENT_NAMES).to_string()));
        }
    }
    Member::Field { anns: annotations(rng, cfg.ann_num, cfg.ann_den), ty: t, name: ident(rng), value: v, pre: Pre::default() }
}

pub fn enum_elem(rng: &mut Rng, cfg: &GenCfg) -> Member {
    Member::EnumElem {
        anns: annotations(rng, cfg.ann_num, cfg.ann_den),
        name: if rng.chance(1, 2) { rng.pick_str(ELEMENT_NAMES).to_string() } else { ident(rng) },
        value: if rng.chance(1, 2) { Some(scalar_lit(rng)) } else { None },
        pre: Pre::default(),
    }
}

pub fn item(rng: &mut Rng, cfg: &GenCfg) -> Item {
    let kind = cfg.kind.unwrap_or_else(|| *rng.pick(&[ItemKind::Interface, ItemKind::Interface, ItemKind::Parcelable, ItemKind::Parcelable, ItemKind::Enum]));
    let n = if cfg.big && rng.chance(1, 25) {
        match vocab::threshold(rng, 300) {
            Some(t) if rng.chance(1, 3) => t,
            _ => {
                if rng.chance(1, 8) {
                    *rng.pick(&[127usize, 128, 129, 255, 256, 257])
                } else {
                    rng.range(31, 80)
                }
            }
        }
    } else {
        rng.below(cfg.max_members + 1)
    };
    let mut members = Vec::new();
    for _ in 0..n {
        members.push(match kind {
            ItemKind::Interface => {
                if rng.chance(1, 4) {
                    constant(rng, cfg)
                } else {
                    method(rng, cfg)
                }
            }
            ItemKind::Parcelable => {
                if rng.chance(1, 4) {
                    constant(rng, cfg)
                } else {
                    field(rng, cfg)
                }
            }
            ItemKind::Enum => enum_elem(rng, cfg),
        });
    }
    if kind == ItemKind::Interface && rng.chance(1, 12) {
        // the versioning meta methods exactly as AIDL tools declare them
        let metas: [(&str, Ty); 2] = [("getInterfaceVersion", Ty::Prim("int".into())), ("getInterfaceHash", Ty::Str)];
        for (n, t) in metas {
            if rng.chance(2, 3) {
                let at = rng.below(members.len() + 1);
                members.insert(at, Member::Method { anns: vec![], oneway: rng.chance(1, 6), ret: t, name: n.into(), args: vec![], args_trailing_comma: false, code: if rng.chance(1, 4) { Some(rng.pick_str(&["16777214", "16777213"]).to_string()) } else { None }, pre: Pre::default() });
            }
        }
    }
    if cfg.repeat_method_names && rng.chance(1, 3) {
        // names collide on purpose: between methods, between constants and methods / fields, between enum elements,
        // between the arguments of one method, with the item's own name
        let item_name_pool: Vec<String> = Vec::new();
        let _ = item_name_pool;
        let mut seen: Vec<String> = Vec::new();
        for m in members.iter_mut() {
            let same_kind_only = rng.chance(1, 2);
            match m {
                Member::Method { name, args, .. } => {
                    if !seen.is_empty() && rng.chance(1, 3) {
                        *name = rng.pick(&seen).clone();
                        if rng.chance(1, 4) {
                            // the same name in another case (a different identifier)
                            let flipped: String = name.chars().enumerate().map(|(i, c)| if i == 0 { if c.is_ascii_lowercase() { c.to_ascii_uppercase() } else { c.to_ascii_lowercase() } } else { c }).collect();
                            if !reflex::is_non_ident_word(&flipped) {
                                *name = flipped;
                            }
                        }
                    }
                    seen.push(name.clone());
                    let mut arg_seen: Vec<String> = Vec::new();
                    for a in args.iter_mut() {
                        if let Some(n) = &mut a.name {
                            if !arg_seen.is_empty() && rng.chance(1, 3) {
                                *n = rng.pick(&arg_seen).clone();
                            } else if rng.chance(1, 10) {
                                *n = name.clone();
                            }
                            arg_seen.push(n.clone());
                        }
                    }
                }
                Member::Const { name, .. } | Member::Field { name, .. } | Member::EnumElem { name, .. } => {
                    if !seen.is_empty() && !same_kind_only && rng.chance(1, 3) {
                        *name = rng.pick(&seen).clone();
                    }
                    seen.push(name.clone());
                }
            }
        }
    }
    // annotations where the AIDL world really puts them (a maintainer's special cases key on these combinations)
    let mut item_anns = annotations(rng, cfg.ann_num, cfg.ann_den);
    if rng.chance(1, 4) {
        let pick_val = |rng: &mut Rng| -> Option<String> {
            match rng.below(5) {
                0 => None,
                1 => Some(rng.pick_str(&["1", "0", "x".len().to_string().as_str(), "true", "7"]).to_string()),
                2 => Some(rng.pick_str(&["\"byte\"", "\"int\"", "\"long\"", "\"\"", "\"b\"", "\"é\""]).to_string()),
                _ => Some(scalar_lit(rng)),
            }
        };
        let a = match kind {
            ItemKind::Enum => Ann { name: "Backing".into(), params: Some(vec![("type".into(), pick_val(rng))]), trailing_comma: false },
            ItemKind::Parcelable => {
                let n = rng.pick_str(&["JavaDerive", "RustDerive", "FixedSize", "JavaOnlyStableParcelable", "VintfStability", "SuppressWarnings"]);
                let keys: &[&str] = match n {
                    "JavaDerive" => &["toString", "equals"],
                    "RustDerive" => &["Clone", "PartialEq"],
                    "SuppressWarnings" => &["value"],
                    _ => &[],
                };
                Ann { name: n.into(), params: if keys.is_empty() { None } else { Some(keys.iter().map(|k| (k.to_string(), pick_val(rng))).collect()) }, trailing_comma: false }
            }
            ItemKind::Interface => {
                let n = rng.pick_str(&["VintfStability", "SensitiveData", "JavaDelegator", "PermissionManuallyEnforced", "SuppressWarnings", "Descriptor"]);
                let keys: &[&str] = match n {
                    "SuppressWarnings" | "Descriptor" => &["value"],
                    _ => &[],
                };
                Ann { name: n.into(), params: if keys.is_empty() { None } else { Some(keys.iter().map(|k| (k.to_string(), pick_val(rng))).collect()) }, trailing_comma: false }
            }
        };
        item_anns.insert(rng.below(item_anns.len() + 1), a);
    }
    for m in members.iter_mut() {
        if !rng.chance(1, 8) {
            continue;
        }
        let n = rng.pick_str(&["nullable", "utf8InCpp", "SuppressWarnings", "Deprecated", "Hide", "UnsupportedAppUsage", "Enforce", "RequiresNoPermission", "PropagateAllowBlocking", "Override"]);
        let a = Ann {
            name: n.into(),
            params: match n {
                "SuppressWarnings" => Some(vec![("value".into(), Some("\"all\"".into()))]),
                "Deprecated" => Some(vec![("note".into(), Some("\"use other\"".into()))]),
                "Enforce" => Some(vec![("condition".into(), Some("\"permission = x\"".into()))]),
                "nullable" if rng.chance(1, 3) => Some(vec![("heap".into(), Some("true".into()))]),
                _ => None,
            },
            trailing_comma: false,
        };
        match m {
            Member::Method { anns, args, .. } => {
                if rng.chance(1, 2) || args.is_empty() {
                    anns.push(a);
                } else {
                    let k = rng.below(args.len());
                    args[k].anns.push(a);
                }
            }
            Member::Const { anns, .. } | Member::Field { anns, .. } | Member::EnumElem { anns, .. } => anns.push(a),
        }
    }
    Item {
        kind,
        anns: item_anns,
        oneway: kind == ItemKind::Interface && rng.chance(1, 4),
        name: upper_ident(rng),
        trailing_comma: kind == ItemKind::Enum && !members.is_empty() && rng.chance(1, 3),
        members,
        pre: Pre::default(),
    }
}

pub fn doc(rng: &mut Rng, cfg: &GenCfg) -> Doc {
    let mut d = doc_header(rng, cfg);
    let mut cfg2 = cfg.clone();
    if cfg2.customs.is_empty() {
        for i in &d.imports {
            cfg2.customs.push(i.clone());
            cfg2.customs.push(vec![i[i.len() - 1].clone()]);
            if i.len() > 2 {
                cfg2.customs.push(i[i.len() - 2..].to_vec());
            }
        }
        for dp in &d.declared {
            cfg2.customs.push(dp.segs.clone());
        }
    }
    d.item = item(rng, &cfg2);
    d
}

fn doc_header(rng: &mut Rng, cfg: &GenCfg) -> Doc {
    let ni = if cfg.big && rng.chance(1, 30) {
        match vocab::threshold(rng, 300) {
            Some(t) if rng.chance(1, 3) => t,
            _ => {
                if rng.chance(1, 8) {
                    *rng.pick(&[128usize, 256, 257])
                } else {
                    rng.range(31, 70)
                }
            }
        }
    } else {
        rng.below(cfg.max_imports + 1)
    };
    let nd = rng.below(cfg.max_declared + 1);
    Doc {
        package: qualified(rng, 1, 4),
        imports: (0..ni)
            .map(|_| {
                if rng.chance(1, 10) {
                    match vocab::dotted(rng) {
                        Some(d) => d.split('.').map(|x| x.to_string()).collect(),
                        None => qualified(rng, 2, 4),
                    }
                } else if rng.chance(1, 6) {
                    rng.pick_str(REAL_WORLD_IMPORTS).split('.').map(|x| x.to_string()).collect()
                } else {
                    qualified(rng, 2, 4)
                }
            })
            .collect(),
        declared: (0..nd).map(|_| Declared { anns: annotations(rng, 1, 6), segs: qualified(rng, 1, 3) }).collect(),
        item: Item { kind: ItemKind::Parcelable, anns: vec![], oneway: false, name: "X".into(), members: vec![], trailing_comma: false, pre: Pre::default() },
    }
}

// ---------------------------------------------------------------------------
// Rendering: model -> token table + expectation tree

#[derive(Clone, Debug, PartialEq)]
pub struct Tok {
    pub text: String,
    pub kind: K,
}

#[derive(Clone, Copy, Debug, PartialEq, Eq, Hash, PartialOrd, Ord)]
pub enum Role {
    Package,
    Import,
    Declared,
    Interface,
    Parcelable,
    Enum,
    Method,
    Const,
    Field,
    EnumElem,
    Arg,
    Type,
}

impl Role {
    pub fn name(self) -> &'static str {
        match self {
            Role::Package => "package",
            Role::Import => "import",
            Role::Declared => "declared",
            Role::Interface => "interface",
            Role::Parcelable => "parcelable",
            Role::Enum => "enum",
            Role::Method => "method",
            Role::Const => "const",
            Role::Field => "field",
            Role::EnumElem => "enum_elem",
            Role::Arg => "arg",
            Role::Type => "type",
        }
    }
}

/// Expectation node: token indices of one construct.
#[derive(Clone, Debug)]
pub struct ENode {
    pub role: Role,
    /// first token of the construct including direction / annotations (where the doc comment is looked for)
    pub anchor: usize,
    /// last token of the construct's last annotation, if any
    pub anns_last: Option<usize>,
    /// first token of the construct proper (after the annotations)
    pub first: usize,
    /// last token of the construct, terminator excluded
    pub last: usize,
    /// terminator token (`;`) if the construct has one
    pub term: Option<usize>,
    /// name tokens (first, last); for an absent argument name: None
    pub name: Option<(usize, usize)>,
    pub children: Vec<ENode>,
    /// method: `oneway` token
    pub oneway: Option<usize>,
    /// method: (`=` token, integer token)
    pub code: Option<(usize, usize)>,
    /// argument: direction token
    pub dir: Option<usize>,
}

impl ENode {
    fn new(role: Role, anchor: usize) -> ENode {
        ENode { role, anchor, anns_last: None, first: anchor, last: anchor, term: None, name: None, children: vec![], oneway: None, code: None, dir: None }
    }
}

#[derive(Clone, Debug)]
pub struct EDoc {
    pub package: ENode,
    pub imports: Vec<ENode>,
    pub declared: Vec<ENode>,
    pub item: ENode,
}

#[derive(Clone, Debug)]
pub struct Rendered {
    pub toks: Vec<Tok>,
    pub exp: EDoc,
    /// forced gaps: token index -> exact trivia in front of that token
    pub forced: std::collections::BTreeMap<usize, String>,
    /// grammar alternatives exercised (for coverage evidence)
    pub alts: Vec<&'static str>,
}

struct R {
    toks: Vec<Tok>,
    forced: std::collections::BTreeMap<usize, String>,
    alts: Vec<&'static str>,
}

impl R {
    fn push(&mut self, text: &str, kind: K) -> usize {
        self.toks.push(Tok { text: text.to_string(), kind });
        self.toks.len() - 1
    }
    fn word(&mut self, w: &str) -> usize {
        let k = reflex::word_kind_pub(w);
        self.push(w, k)
    }
    fn sym(&mut self, s: &str) -> usize {
        let k = match s {
            ";" => K::Semi,
            "," => K::Comma,
            "{" => K::LBrace,
            "}" => K::RBrace,
            "(" => K::LParen,
            ")" => K::RParen,
            "[" => K::LBracket,
            "]" => K::RBracket,
            "<" => K::Lt,
            ">" => K::Gt,
            "=" => K::Eq,
            "." => K::Dot,
            _ => panic!("sym {s}"),
        };
        self.push(s, k)
    }
    fn lit(&mut self, s: &str) -> usize {
        let lr = reflex::lex(s);
        assert!(lr.invalid_at.is_none() && lr.toks.len() == 1, "literal {s:?} does not lex as one token");
        self.push(s, lr.toks[0].kind)
    }
    fn next(&self) -> usize {
        self.toks.len()
    }
    fn alt(&mut self, a: &'static str) {
        self.alts.push(a);
    }
    fn pre(&mut self, p: &Pre) {
        if let Some(f) = &p.forced {
            self.forced.insert(self.next(), f.clone());
        }
    }

    fn qname(&mut self, segs: &[String]) -> (usize, usize) {
        let mut first = 0;
        let mut last = 0;
        for (i, s) in segs.iter().enumerate() {
            if i > 0 {
                self.sym(".");
            }
            let t = self.word(s);
            if i == 0 {
                first = t;
            }
            last = t;
        }
        (first, last)
    }

    fn anns(&mut self, anns: &[Ann]) -> Option<usize> {
        let mut last = None;
        for a in anns {
            let t = self.push(&format!("@{}", a.name), K::Annotation);
            last = Some(t);
            if let Some(ps) = &a.params {
                self.alt("Ann.params");
                self.sym("(");
                for (i, (k, v)) in ps.iter().enumerate() {
                    if i > 0 {
                        self.sym(",");
                    }
                    self.word(k);
                    if let Some(v) = v {
                        self.alt("AnnParam.value");
                        self.sym("=");
                        self.lit(v);
                    } else {
                        self.alt("AnnParam.bare");
                    }
                }
                if a.trailing_comma && !ps.is_empty() {
                    self.alt("AnnParams.trailing_comma");
                    self.sym(",");
                }
                last = Some(self.sym(")"));
            } else {
                self.alt("Ann.bare");
            }
        }
        last
    }

    fn ty(&mut self, t: &Ty) -> ENode {
        let start = self.next();
        let mut n = ENode::new(Role::Type, start);
        match t {
            Ty::Void => {
                self.alt("Type.void");
                let k = self.word("void");
                n.name = Some((k, k));
                n.last = k;
            }
            Ty::Prim(p) => {
                self.alt("Type.primitive");
                let k = self.word(p);
                n.name = Some((k, k));
                n.last = k;
            }
            Ty::Str => {
                self.alt("Type.String");
                let k = self.word("String");
                n.name = Some((k, k));
                n.last = k;
            }
            Ty::CharSeq => {
                self.alt("Type.CharSequence");
                let k = self.word("CharSequence");
                n.name = Some((k, k));
                n.last = k;
            }
            Ty::Array(e) => {
                self.alt("Type.array");
                let c = self.ty(e);
                n.name = Some((c.first, c.last));
                self.sym("[");
                n.last = self.sym("]");
                n.children.push(c);
            }
            Ty::List(None) => {
                self.alt("Type.List.raw");
                let k = self.word("List");
                n.name = Some((k, k));
                n.last = k;
            }
            Ty::List(Some(e)) => {
                self.alt("Type.List.generic");
                let k = self.word("List");
                n.name = Some((k, k));
                self.sym("<");
                let c = self.ty(e);
                n.children.push(c);
                n.last = self.sym(">");
            }
            Ty::Map(None) => {
                self.alt("Type.Map.raw");
                let k = self.word("Map");
                n.name = Some((k, k));
                n.last = k;
            }
            Ty::Map(Some(kv)) => {
                self.alt("Type.Map.generic");
                let k = self.word("Map");
                n.name = Some((k, k));
                self.sym("<");
                let c1 = self.ty(&kv.0);
                self.sym(",");
                let c2 = self.ty(&kv.1);
                n.children.push(c1);
                n.children.push(c2);
                n.last = self.sym(">");
            }
            Ty::Custom(segs) => {
                self.alt(if segs.len() > 1 { "Type.custom.qualified" } else { "Type.custom.simple" });
                let (a, b) = self.qname(segs);
                n.name = Some((a, b));
                n.last = b;
            }
        }
        n.first = start;
        n
    }

    fn val(&mut self, v: &Val) {
        match v {
            Val::Scalar(s) => {
                self.alt("Value.scalar");
                self.lit(s);
            }
            Val::Empty => {
                self.alt("Value.empty_braces");
                self.sym("{");
                self.sym("}");
            }
            Val::Braces { first, rest, trailing_comma } => {
                self.alt("Value.braces");
                self.sym("{");
                for x in first {
                    self.val(x);
                }
                for x in rest {
                    self.sym(",");
                    self.val(x);
                }
                if *trailing_comma {
                    self.alt("Value.braces.trailing_comma");
                    self.sym(",");
                }
                self.sym("}");
            }
            Val::Dotted(a, b) => {
                self.alt("Value.dotted");
                self.word(a);
                self.sym(".");
                self.word(b);
            }
        }
    }

    fn member(&mut self, m: &Member) -> ENode {
        match m {
            Member::Method { anns, oneway, ret, name, args, args_trailing_comma, code, pre } => {
                self.pre(pre);
                let anchor = self.next();
                let mut n = ENode::new(Role::Method, anchor);
                n.anns_last = self.anns(anns);
                n.first = self.next();
                if *oneway {
                    self.alt("Method.oneway");
                    n.oneway = Some(self.word("oneway"));
                }
                let rt = self.ty(ret);
                n.children.push(rt);
                let nm = self.word(name);
                n.name = Some((nm, nm));
                self.sym("(");
                for (i, a) in args.iter().enumerate() {
                    if i > 0 {
                        self.sym(",");
                    }
                    self.pre(&a.pre);
                    let a_anchor = self.next();
                    let mut an = ENode::new(Role::Arg, a_anchor);
                    if let Some(d) = &a.dir {
                        self.alt("Arg.direction");
                        an.dir = Some(self.word(d));
                    }
                    an.anns_last = self.anns(&a.anns);
                    let t = self.ty(&a.ty);
                    an.last = t.last;
                    an.children.push(t);
                    if let Some(nm) = &a.name {
                        self.alt("Arg.named");
                        let k = self.word(nm);
                        an.name = Some((k, k));
                        an.last = k;
                    } else {
                        self.alt("Arg.unnamed");
                    }
                    an.first = a_anchor;
                    n.children.push(an);
                }
                if *args_trailing_comma && !args.is_empty() {
                    self.alt("Args.trailing_comma");
                    self.sym(",");
                }
                n.last = self.sym(")");
                if let Some(c) = code {
                    self.alt("Method.code");
                    let e = self.sym("=");
                    let i = self.push(c, K::Integer);
                    n.code = Some((e, i));
                    n.last = i;
                }
                n.term = Some(self.sym(";"));
                n
            }
            Member::Const { anns, ty, name, value, pre } => {
                self.pre(pre);
                let anchor = self.next();
                let mut n = ENode::new(Role::Const, anchor);
                n.anns_last = self.anns(anns);
                n.first = self.word("const");
                let t = self.ty(ty);
                n.children.push(t);
                let nm = self.word(name);
                n.name = Some((nm, nm));
                self.sym("=");
                self.val(value);
                n.last = self.next() - 1;
                n.term = Some(self.sym(";"));
                n
            }
            Member::Field { anns, ty, name, value, pre } => {
                self.pre(pre);
                let anchor = self.next();
                let mut n = ENode::new(Role::Field, anchor);
                n.anns_last = self.anns(anns);
                n.first = self.next();
                let t = self.ty(ty);
                n.children.push(t);
                let nm = self.word(name);
                n.name = Some((nm, nm));
                n.last = nm;
                if let Some(v) = value {
                    self.alt("Field.value");
                    self.sym("=");
                    self.val(v);
                    n.last = self.next() - 1;
                }
                n.term = Some(self.sym(";"));
                n
            }
            Member::EnumElem { anns, name, value, pre } => {
                self.pre(pre);
                let anchor = self.next();
                let mut n = ENode::new(Role::EnumElem, anchor);
                n.anns_last = self.anns(anns);
                let nm = self.word(name);
                n.first = nm;
                n.name = Some((nm, nm));
                n.last = nm;
                if let Some(v) = value {
                    self.alt("EnumElem.value");
                    self.sym("=");
                    n.last = self.lit(v);
                }
                n
            }
        }
    }
}

pub fn render(d: &Doc) -> Rendered {
    let mut r = R { toks: Vec::new(), forced: Default::default(), alts: Vec::new() };
    // package
    let p0 = r.word("package");
    let mut pk = ENode::new(Role::Package, p0);
    let (a, b) = r.qname(&d.package);
    pk.name = Some((a, b));
    pk.last = b;
    pk.term = Some(r.sym(";"));
    // imports
    let mut imports = Vec::new();
    for i in &d.imports {
        let t = r.word("import");
        let mut n = ENode::new(Role::Import, t);
        let (a, b) = r.qname(i);
        n.name = Some((a, b));
        n.last = b;
        n.term = Some(r.sym(";"));
        imports.push(n);
    }
    let mut declared = Vec::new();
    for dp in &d.declared {
        let anchor = r.next();
        let mut n = ENode::new(Role::Declared, anchor);
        n.anns_last = r.anns(&dp.anns);
        n.first = r.word("parcelable");
        let (a, b) = r.qname(&dp.segs);
        n.name = Some((a, b));
        n.last = b;
        n.term = Some(r.sym(";"));
        r.alt(if dp.segs.len() > 1 { "DeclaredParcelable.qualified" } else { "DeclaredParcelable.simple" });
        declared.push(n);
    }
    // item
    let it = &d.item;
    r.pre(&it.pre);
    let anchor = r.next();
    let role = match it.kind {
        ItemKind::Interface => Role::Interface,
        ItemKind::Parcelable => Role::Parcelable,
        ItemKind::Enum => Role::Enum,
    };
    let mut n = ENode::new(role, anchor);
    n.anns_last = r.anns(&it.anns);
    n.first = r.next();
    if it.oneway && it.kind == ItemKind::Interface {
        r.alt("Interface.oneway");
        n.oneway = Some(r.word("oneway"));
    }
    r.word(it.kind.keyword());
    let nm = r.word(&it.name);
    n.name = Some((nm, nm));
    r.sym("{");
    for (i, m) in it.members.iter().enumerate() {
        if it.kind == ItemKind::Enum && i > 0 {
            r.sym(",");
        }
        let c = r.member(m);
        n.children.push(c);
    }
    if it.kind == ItemKind::Enum && it.trailing_comma && !it.members.is_empty() {
        r.alt("Enum.trailing_comma");
        r.sym(",");
    }
    n.last = r.sym("}");
    r.alt(match it.kind {
        ItemKind::Interface => "Item.interface",
        ItemKind::Parcelable => "Item.parcelable",
        ItemKind::Enum => "Item.enum",
    });
    Rendered { toks: r.toks, exp: EDoc { package: pk, imports, declared, item: n }, forced: r.forced, alts: r.alts }
}

// ---------------------------------------------------------------------------
// Layout

pub const UNICODE_WS: &[&str] = &[
    "\u{85}", "\u{a0}", "\u{1680}", "\u{2000}", "\u{2001}", "\u{2002}", "\u{2003}", "\u{2004}", "\u{2005}", "\u{2006}", "\u{2007}", "\u{2008}",
    "\u{2009}", "\u{200a}", "\u{2028}", "\u{2029}", "\u{202f}", "\u{205f}", "\u{3000}",
];

pub const COMMENT_WORDS: &[&str] = &[
    "a", "note", "x", " ", "  ", "é", "ü", "漢字", "😀", "e\u{301}", "*", "**", "/", "//", "/ *", "\"", "'", "interface", "in", "int", ";", "{", "}", "@", "@param",
    "\u{a0}", "\u{2028}", "TODO", "=", "12", "\\", "\t", "\n", "\n * ", "\n *\n *\n", "\r\n", "\n\n", " *", "/*", "\u{3000}", "\u{feff}",
];

#[derive(Clone, Copy, Debug, PartialEq, Eq)]
pub enum LayoutStyle {
    /// no separator unless the lexer needs one (then one space)
    Minimal,
    /// single spaces
    Spaces,
    /// spaces / tabs / newlines (LF)
    Plain,
    /// CRLF line ends, spaces
    Crlf,
    /// everything: unicode whitespace, comments, mixed line ends
    Wild,
    /// like Wild but without doc comments (`/**`) so that docs are untouched
    WildNoDoc,
}

pub fn comment_text(rng: &mut Rng, block: bool) -> String {
    let n = rng.below(5);
    let mut s = String::new();
    for _ in 0..n {
        if rng.chance(1, 12) {
            if let Some(w) = vocab::word(rng) {
                s.push_str(&w);
                continue;
            }
        }
        s.push_str(rng.pick_str(COMMENT_WORDS));
    }
    if block {
        while let Some(i) = s.find("*/") {
            s.replace_range(i..i + 2, "* /");
        }
        // a block comment's text must not end in '*' followed by our closing "*/" ambiguity: "**/" is fine for the lexer
    } else {
        s = s.replace(['\n', '\r'], " ");
    }
    s
}

pub fn trivia_piece(rng: &mut Rng, style: LayoutStyle) -> String {
    match style {
        LayoutStyle::Minimal => String::new(),
        LayoutStyle::Spaces => " ".into(),
        LayoutStyle::Plain => rng.pick(&[" ", " ", "  ", "\t", "\n", "\n  ", "\n\n"]).to_string(),
        LayoutStyle::Crlf => rng.pick(&[" ", " ", "\r\n", "\r\n  ", "\t", "\r\n\r\n"]).to_string(),
        LayoutStyle::Wild | LayoutStyle::WildNoDoc => match rng.below(14) {
            0..=2 => " ".into(),
            3 => "\t".into(),
            4 => "\n".into(),
            5 => "\r\n".into(),
            6 => rng.pick(&["\r", "\u{b}", "\u{c}"]).to_string(),
            7 | 8 => rng.pick(UNICODE_WS).to_string(),
            9 | 10 => format!("//{}{}", comment_text(rng, false), rng.pick(&["\n", "\r\n", "\r", "\n\n"])),
            11 | 12 => {
                let t = comment_text(rng, true);
                // "/*" + t + "*/": if t starts with '*' this is a doc comment (avoided in NoDoc mode); a text starting
                // with '/' gives "/*/ ... */", which is one ordinary comment for the lexer
                if style == LayoutStyle::WildNoDoc && t.starts_with('*') {
                    format!("/* {t}*/")
                } else {
                    format!("/*{t}*/")
                }
            }
            _ => {
                if style == LayoutStyle::WildNoDoc {
                    " ".into()
                } else {
                    let t = comment_text(rng, true);
                    let t = if t.starts_with('/') { format!(" {t}") } else { t };
                    format!("/**{t}*/")
                }
            }
        },
    }
}

pub fn trivia(rng: &mut Rng, style: LayoutStyle) -> String {
    if matches!(style, LayoutStyle::Wild | LayoutStyle::WildNoDoc) && rng.chance(1, 6000) {
        // a very long line: a 66-140 KiB comment without a line break (columns beyond 65535)
        let n = rng.range(66_000, 140_000);
        return format!(" /* {} */ ", "long é ".repeat(n / 8));
    }
    let n = match style {
        LayoutStyle::Minimal => 0,
        LayoutStyle::Spaces => 1,
        _ => rng.below(4),
    };
    let mut s = String::new();
    for _ in 0..n {
        s.push_str(&trivia_piece(rng, style));
    }
    s
}

/// true if tokens a and b can be written without a separator and still lex as a, b
pub fn can_abut(a: &Tok, b: &Tok) -> bool {
    let s = format!("{}{}", a.text, b.text);
    let lr = reflex::lex(&s);
    lr.invalid_at.is_none()
        && lr.toks.len() == 2
        && lr.toks[0].kind == a.kind
        && lr.toks[0].end == a.text.len()
        && lr.toks[1].kind == b.kind
}

#[derive(Clone, Debug)]
pub struct Laid {
    pub text: String,
    /// byte span of every token
    pub spans: Vec<(usize, usize)>,
    /// number of token pairs written without any separator
    pub abutting: usize,
}

/// Lay the tokens out. `forced` gaps are used verbatim.
pub fn layout(toks: &[Tok], rng: &mut Rng, style: LayoutStyle, forced: &std::collections::BTreeMap<usize, String>) -> Laid {
    let mut text = String::new();
    let mut spans = Vec::with_capacity(toks.len());
    let mut abutting = 0;
    for (i, t) in toks.iter().enumerate() {
        let mut gap = if let Some(f) = forced.get(&i) {
            f.clone()
        } else if i == 0 && matches!(style, LayoutStyle::Minimal | LayoutStyle::Spaces) {
            String::new()
        } else {
            trivia(rng, style)
        };
        if i > 0 && !has_separating_effect(&gap) {
            if can_abut(&toks[i - 1], t) {
                if gap.is_empty() {
                    abutting += 1;
                }
            } else {
                gap.push(' ');
            }
        }
        text.push_str(&gap);
        let s = text.len();
        text.push_str(&t.text);
        spans.push((s, text.len()));
    }
    if !matches!(style, LayoutStyle::Minimal | LayoutStyle::Spaces) {
        let tail = trivia(rng, style);
        // a trailing "//" comment without newline is fine at EOF
        text.push_str(&tail);
    }
    Laid { text, spans, abutting }
}

fn has_separating_effect(gap: &str) -> bool {
    !gap.is_empty()
}

/// Check with the reference lexer that the laid-out text lexes back to exactly the token table.
pub fn layout_is_faithful(toks: &[Tok], laid: &Laid) -> bool {
    let lr = reflex::lex(&laid.text);
    if lr.invalid_at.is_some() || lr.toks.len() != toks.len() {
        return false;
    }
    lr.toks.iter().zip(toks.iter()).zip(laid.spans.iter()).all(|((l, t), s)| l.kind == t.kind && l.start == s.0 && l.end == s.1)
}
