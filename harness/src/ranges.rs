//! Range oracles (C04): generic well-formedness / nesting of every range in a
//! tree and in diagnostics, and exact expectations from the token table.

use crate::astx::{self, contains, fmt_range, range_wf, ANode, LineIndex};
use crate::gen::{EDoc, ENode, Laid, Role};
use aidl_parser::ast;
use aidl_parser::diagnostic::Diagnostic;

pub struct RangeReport {
    pub problems: Vec<String>,
    pub ranges_checked: u64,
    pub exact_checked: u64,
    pub complex_lines: u64,
    pub multiline_ranges: u64,
}

impl RangeReport {
    pub fn new() -> Self {
        RangeReport { problems: vec![], ranges_checked: 0, exact_checked: 0, complex_lines: 0, multiline_ranges: 0 }
    }
    fn wf(&mut self, idx: &LineIndex, what: &str, r: &ast::Range) -> bool {
        self.ranges_checked += 1;
        if r.start.line_col.0 != r.end.line_col.0 {
            self.multiline_ranges += 1;
        }
        if r.start.offset <= idx.text.len() && idx.text.is_char_boundary(r.start.offset) && !idx.line_col(r.start.offset).1 {
            self.complex_lines += 1;
        }
        match range_wf(idx, r) {
            Ok(()) => true,
            Err(e) => {
                self.problems.push(format!("{what}: {e} {}", fmt_range(r)));
                false
            }
        }
    }
}

fn generic_node(rep: &mut RangeReport, idx: &LineIndex, n: &ANode, path: &str) {
    let here = format!("{path}/{}", n.role.name());
    let ok_full = rep.wf(idx, &format!("{here}.full_range"), n.full);
    let ok_name = rep.wf(idx, &format!("{here}.symbol_range"), n.name);
    let name_present = match n.role {
        Role::Arg => n.arg.map_or(false, |a| a.name.is_some()),
        _ => true,
    };
    if ok_full && ok_name && name_present && !contains(n.full, n.name) {
        rep.problems.push(format!("{here}: name range {} not inside full range {}", fmt_range(n.name), fmt_range(n.full)));
    }
    if let Some(r) = n.oneway_range {
        let ok = rep.wf(idx, &format!("{here}.oneway_range"), r);
        if ok && ok_full && n.method.map_or(false, |m| r.start.offset != r.end.offset && m.oneway) && !contains(n.full, r) {
            rep.problems.push(format!("{here}: oneway range {} not inside full range {}", fmt_range(r), fmt_range(n.full)));
        }
    }
    if let Some(r) = n.code_range {
        let ok = rep.wf(idx, &format!("{here}.transact_code_range"), r);
        if ok && ok_full && n.method.map_or(false, |m| m.transact_code.is_some()) && !contains(n.full, r) {
            rep.problems.push(format!("{here}: transact code range {} not inside full range {}", fmt_range(r), fmt_range(n.full)));
        }
    }
    if let Some(r) = n.dir_range {
        let ok = rep.wf(idx, &format!("{here}.direction_range"), r);
        if ok && ok_full && !contains(n.full, r) {
            rep.problems.push(format!("{here}: direction range {} not inside full range {}", fmt_range(r), fmt_range(n.full)));
        }
    }
    let mut prev_end: Option<usize> = None;
    for (i, c) in n.children.iter().enumerate() {
        generic_node(rep, idx, c, &format!("{here}[{i}]"));
        if ok_full && c.full.start.offset <= c.full.end.offset && !contains(n.full, c.full) {
            rep.problems.push(format!("{here}: child {i} ({}) full range {} escapes parent {}", c.role.name(), fmt_range(c.full), fmt_range(n.full)));
        }
        if let Some(pe) = prev_end {
            if c.full.start.offset < pe {
                rep.problems.push(format!("{here}: child {i} ({}) starts at {} before the previous sibling ends at {}", c.role.name(), c.full.start.offset, pe));
            }
        }
        prev_end = Some(c.full.end.offset);
    }
}

/// Well-formedness, containment and sibling order of every range of a tree.
pub fn check_tree_generic(rep: &mut RangeReport, text: &str, a: &ast::Aidl) {
    let idx = LineIndex::new(text);
    let tops = astx::top_nodes(a);
    let mut prev_end: Option<usize> = None;
    for (i, n) in tops.iter().enumerate() {
        generic_node(rep, &idx, n, &format!("top[{i}]"));
        if let Some(pe) = prev_end {
            if n.full.start.offset < pe {
                rep.problems.push(format!("top-level {} starts at {} before the previous construct ends at {}", n.role.name(), n.full.start.offset, pe));
            }
        }
        prev_end = Some(n.full.end.offset);
    }
}

pub fn check_diagnostics_generic(rep: &mut RangeReport, text: &str, diags: &[Diagnostic]) {
    let idx = LineIndex::new(text);
    for (i, d) in diags.iter().enumerate() {
        rep.wf(&idx, &format!("diagnostic[{i}] {:?}", d.message), &d.range);
        for (j, ri) in d.related_infos.iter().enumerate() {
            rep.wf(&idx, &format!("diagnostic[{i}].related[{j}] {:?}", ri.message), &ri.range);
        }
    }
}

fn exact(rep: &mut RangeReport, what: &str, r: &ast::Range, starts: &[(usize, usize)], ends: &[usize]) {
    rep.exact_checked += 1;
    let s_ok = starts.iter().any(|(lo, hi)| *lo <= r.start.offset && r.start.offset <= *hi);
    let e_ok = ends.contains(&r.end.offset);
    if !s_ok || !e_ok {
        rep.problems.push(format!("{what}: reported {} but expected start in {:?} and end in {:?}", fmt_range(r), starts, ends));
    }
}

fn exact_node(rep: &mut RangeReport, laid: &Laid, a: &ANode, e: &ENode, path: &str) {
    let here = format!("{path}/{}", e.role.name());
    if a.role != e.role {
        rep.problems.push(format!("{here}: tree has a {} where the document has a {}", a.role.name(), e.role.name()));
        return;
    }
    let sp = &laid.spans;
    // name range
    if let Some((n0, n1)) = e.name {
        exact(rep, &format!("{here}.symbol_range"), a.name, &[(sp[n0].0, sp[n0].0)], &[sp[n1].1]);
    }
    // full range
    let mut starts = vec![(sp[e.first].0, sp[e.first].0)];
    if let Some(k) = e.anns_last {
        if e.role != Role::Arg {
            // "optionally extended backwards over whitespace/comments that follow its annotations": any position
            // between the trivia units of that gap or inside its whitespace, but never strictly inside a comment
            starts.extend(trivia_boundaries(&laid.text, sp[k].1, sp[e.first].0));
        }
    }
    let mut ends = vec![sp[e.last].1];
    if let Some(t) = e.term {
        ends.push(sp[t].1);
    }
    exact(rep, &format!("{here}.full_range"), a.full, &starts, &ends);
    if let (Some(ow), Some(r)) = (e.oneway, a.oneway_range) {
        exact(rep, &format!("{here}.oneway_range"), r, &[(sp[ow].0, sp[ow].0)], &[sp[ow].1]);
    }
    if let (Some((eq, int)), Some(r)) = (e.code, a.code_range) {
        exact(rep, &format!("{here}.transact_code_range"), r, &[(sp[eq].0, sp[eq].0), (sp[int].0, sp[int].0)], &[sp[int].1]);
    }
    match (e.dir, a.dir_range) {
        (Some(d), Some(r)) => exact(rep, &format!("{here}.direction_range"), r, &[(sp[d].0, sp[d].0)], &[sp[d].1]),
        (None, None) => {}
        _ => rep.problems.push(format!("{here}: direction presence differs from the document")),
    }
    if a.children.len() != e.children.len() {
        rep.problems.push(format!("{here}: {} children in the tree, {} in the document", a.children.len(), e.children.len()));
        return;
    }
    for (i, (ca, ce)) in a.children.iter().zip(e.children.iter()).enumerate() {
        exact_node(rep, laid, ca, ce, &format!("{here}[{i}]"));
    }
}

/// Exact name / full range expectations from the generator's token table.
pub fn check_tree_exact(rep: &mut RangeReport, laid: &Laid, a: &ast::Aidl, exp: &EDoc) {
    let tops = astx::top_nodes(a);
    let mut exps: Vec<&ENode> = vec![&exp.package];
    exps.extend(exp.imports.iter());
    exps.extend(exp.declared.iter());
    exps.push(&exp.item);
    if tops.len() != exps.len() {
        rep.problems.push(format!("{} top-level constructs in the tree, {} in the document", tops.len(), exps.len()));
        return;
    }
    for (i, (ta, te)) in tops.iter().zip(exps.iter()).enumerate() {
        exact_node(rep, laid, ta, te, &format!("top[{i}]"));
    }
}

/// Positions of a trivia-only gap [a, b] that are not strictly inside a comment, as closed intervals.
fn trivia_boundaries(text: &str, a: usize, b: usize) -> Vec<(usize, usize)> {
    let gap = &text[a..b];
    let mut out = Vec::new();
    let mut i = 0usize;
    let bytes = gap.as_bytes();
    let mut ws_start = 0usize;
    while i < gap.len() {
        if gap[i..].starts_with("/*") {
            out.push((a + ws_start, a + i));
            let end = gap[i + 2..].find("*/").map(|k| i + 2 + k + 2).unwrap_or(gap.len());
            i = end;
            ws_start = i;
        } else if gap[i..].starts_with("//") {
            out.push((a + ws_start, a + i));
            let mut j = i + 2;
            while j < gap.len() && bytes[j] != b'\n' && bytes[j] != b'\r' {
                j += 1;
            }
            // the comment token also swallows the line ends that follow it
            while j < gap.len() && (bytes[j] == b'\n' || bytes[j] == b'\r') {
                j += 1;
            }
            i = j;
            ws_start = i;
        } else {
            i += gap[i..].chars().next().map_or(1, |c| c.len_utf8());
        }
    }
    out.push((a + ws_start, b));
    out
}
