//! R-val: reference validator. Works on the parse-stage trees (hook H1) and the
//! project's key -> kinds table; produces the expected kind of every type node
//! and the expected multiset of validation diagnostics as (class, severity,
//! range, related ranges). Independent re-implementation from the property
//! statements (C05-C10).

use crate::astx;
use aidl_parser::ast::{self, AndroidTypeKind, ResolvedItemKind, TypeKind};
use aidl_parser::diagnostic::{Diagnostic, DiagnosticKind};
use std::collections::{BTreeMap, HashMap, HashSet};

#[derive(Clone, Copy, Debug, PartialEq, Eq, Hash, PartialOrd, Ord)]
pub enum Cat {
    Primitive,
    Void,
    Str,
    CharSeq,
    Array,
    List,
    Map,
    IBinder,
    FileDescriptor,
    Pfd,
    Holder,
    Interface,
    Parcelable,
    Enum,
    Forward,
    UnknownImport,
    Unresolved,
}

impl Cat {
    pub fn name(self) -> &'static str {
        match self {
            Cat::Primitive => "primitive",
            Cat::Void => "void",
            Cat::Str => "String",
            Cat::CharSeq => "CharSequence",
            Cat::Array => "array",
            Cat::List => "list",
            Cat::Map => "map",
            Cat::IBinder => "IBinder",
            Cat::FileDescriptor => "FileDescriptor",
            Cat::Pfd => "ParcelFileDescriptor",
            Cat::Holder => "ParcelableHolder",
            Cat::Interface => "interface",
            Cat::Parcelable => "parcelable",
            Cat::Enum => "enum",
            Cat::Forward => "forward_declared",
            Cat::UnknownImport => "unknown_import",
            Cat::Unresolved => "unresolved",
        }
    }
}

pub fn cat_of_kind(k: &TypeKind) -> Cat {
    match k {
        TypeKind::Primitive => Cat::Primitive,
        TypeKind::Void => Cat::Void,
        TypeKind::Array => Cat::Array,
        TypeKind::Map => Cat::Map,
        TypeKind::List => Cat::List,
        TypeKind::String => Cat::Str,
        TypeKind::CharSequence => Cat::CharSeq,
        TypeKind::AndroidType(AndroidTypeKind::IBinder) => Cat::IBinder,
        TypeKind::AndroidType(AndroidTypeKind::FileDescriptor) => Cat::FileDescriptor,
        TypeKind::AndroidType(AndroidTypeKind::ParcelFileDescriptor) => Cat::Pfd,
        TypeKind::AndroidType(AndroidTypeKind::ParcelableHolder) => Cat::Holder,
        TypeKind::ResolvedItem(_, ResolvedItemKind::Interface) => Cat::Interface,
        TypeKind::ResolvedItem(_, ResolvedItemKind::Parcelable) => Cat::Parcelable,
        TypeKind::ResolvedItem(_, ResolvedItemKind::Enum) => Cat::Enum,
        TypeKind::ResolvedItem(_, ResolvedItemKind::ForwardDeclaredParcelable) => Cat::Forward,
        TypeKind::ResolvedItem(_, ResolvedItemKind::UnknownImport) => Cat::UnknownImport,
        TypeKind::Unresolved => Cat::Unresolved,
    }
}

fn builtin_by_simple(name: &str) -> Option<AndroidTypeKind> {
    match name {
        "IBinder" => Some(AndroidTypeKind::IBinder),
        "FileDescriptor" => Some(AndroidTypeKind::FileDescriptor),
        "ParcelFileDescriptor" => Some(AndroidTypeKind::ParcelFileDescriptor),
        "ParcelableHolder" => Some(AndroidTypeKind::ParcelableHolder),
        _ => None,
    }
}

fn builtin_by_qualified(name: &str) -> Option<AndroidTypeKind> {
    [AndroidTypeKind::IBinder, AndroidTypeKind::FileDescriptor, AndroidTypeKind::ParcelFileDescriptor, AndroidTypeKind::ParcelableHolder]
        .into_iter()
        .find(|k| k.get_qualified_name() == name)
}

/// key -> kinds registered under it (several when files collide)
pub type KeyTable = HashMap<String, Vec<ResolvedItemKind>>;

pub fn key_table<'a>(trees: impl Iterator<Item = &'a ast::Aidl>) -> KeyTable {
    let mut t: KeyTable = HashMap::new();
    for a in trees {
        let key = format!("{}.{}", a.package.name, a.item.get_name());
        let kind = match a.item {
            ast::Item::Interface(_) => ResolvedItemKind::Interface,
            ast::Item::Parcelable(_) => ResolvedItemKind::Parcelable,
            ast::Item::Enum(_) => ResolvedItemKind::Enum,
        };
        let e = t.entry(key).or_default();
        if !e.contains(&kind) {
            e.push(kind);
        }
    }
    t
}

/// The kinds a custom-type reference may legitimately end up with.
pub fn allowed_kinds(name: &str, imports: &[String], declared: &[String], keys: &KeyTable) -> Vec<TypeKind> {
    let mut out: Vec<TypeKind> = Vec::new();
    if name == "android.os.ParcelFileDescriptor" {
        return vec![TypeKind::AndroidType(AndroidTypeKind::ParcelFileDescriptor)];
    }
    let suffix = format!(".{name}");
    let mut seen: HashSet<&String> = HashSet::new();
    for i in imports {
        if (i == name || i.ends_with(&suffix)) && seen.insert(i) {
            if let Some(kinds) = keys.get(i) {
                for k in kinds {
                    out.push(TypeKind::ResolvedItem(i.clone(), k.clone()));
                }
            } else if let Some(b) = builtin_by_qualified(i) {
                out.push(TypeKind::AndroidType(b));
            } else {
                out.push(TypeKind::ResolvedItem(i.clone(), ResolvedItemKind::UnknownImport));
            }
        }
    }
    if !out.is_empty() {
        // a reference written with the full qualified name of a built-in that the file imports while the project
        // ALSO registers a file under that key: the statement does not say which wins; both are accepted
        if let Some(b) = builtin_by_qualified(name) {
            if imports.iter().any(|i| i == name) && !out.contains(&TypeKind::AndroidType(b.clone())) {
                out.push(TypeKind::AndroidType(b));
            }
        }
        return out;
    }
    if !name.contains('.') && declared.iter().any(|d| d == name) {
        return vec![TypeKind::ResolvedItem(name.to_string(), ResolvedItemKind::ForwardDeclaredParcelable)];
    }
    if let Some(b) = builtin_by_simple(name) {
        return vec![TypeKind::AndroidType(b)];
    }
    vec![TypeKind::Unresolved]
}

#[derive(Clone, Debug, PartialEq, Eq, PartialOrd, Ord)]
pub struct Expect {
    pub class: &'static str,
    pub error: bool,
    pub range: (usize, usize),
    /// expected related-info ranges; None = not checked (any)
    pub related: Option<Vec<(usize, usize)>>,
    /// alternative acceptable related ranges (e.g. any conflicting import)
    pub related_any_of: Vec<(usize, usize)>,
}

fn ex(class: &'static str, error: bool, r: &ast::Range) -> Expect {
    Expect { class, error, range: (r.start.offset, r.end.offset), related: Some(vec![]), related_any_of: vec![] }
}

fn rg(r: &ast::Range) -> (usize, usize) {
    (r.start.offset, r.end.offset)
}

/// Classes of validation diagnostics, recognised by the words the property statements use.
/// the message without the names it quotes between backticks (user-chosen identifiers must not steer the classification)
fn without_quoted_names(msg: &str) -> String {
    let mut out = String::new();
    let mut inside = false;
    for c in msg.chars() {
        if c == '`' {
            inside = !inside;
            out.push(' ');
        } else if !inside {
            out.push(c);
        }
    }
    out
}

pub fn classify(d: &Diagnostic) -> Option<&'static str> {
    let m = without_quoted_names(&d.message).to_lowercase();
    let c = d.context_message.as_deref().unwrap_or("").to_lowercase();
    let has = |w: &str| m.contains(w);
    if has("unknown type") || (c.contains("unknown type") && !has("import")) {
        return Some("unknown_type");
    }
    if has("duplicated method name") {
        return Some("dup_method_name");
    }
    if has("duplicated method id") || (has("duplicated") && has("method") && has("id")) {
        return Some("dup_method_id");
    }
    if has("mixed") {
        return Some("mixed_ids");
    }
    if has("duplicated import") {
        return Some("dup_import");
    }
    if has("unresolved import") {
        return Some("unresolved_import");
    }
    if has("unused import") {
        return Some("unused_import");
    }
    if has("conflict") {
        return Some("decl_conflict");
    }
    if has("multiple") && has("declaration") {
        return Some("decl_multiple");
    }
    if has("unused declared parcelable") {
        return Some("decl_unused");
    }
    if has("usage of declared parcelable") || (c.contains("declared parcelable") && has("usage")) {
        return Some("decl_usage");
    }
    if has("direction") || has("invalid argument") || c.contains("invalid argument") {
        return Some("direction");
    }
    if has("multi-dimensional") {
        return Some("array_multi");
    }
    if has("array element") {
        return Some("array_elem");
    }
    if has("list element") {
        return Some("list_elem");
    }
    if has("map key") {
        return Some("map_key");
    }
    if has("map value") {
        return Some("map_value");
    }
    if has("non-generic list") {
        return Some("raw_list");
    }
    if has("non-generic map") {
        return Some("raw_map");
    }
    if has("oneway") && (has("does not need") || c.contains("redundant")) {
        return Some("redundant_oneway");
    }
    if has("return type") {
        return Some("oneway_return");
    }
    None
}

pub struct FileExpect {
    pub diags: Vec<Expect>,
    /// (type node path index in pre-order, allowed kinds, chosen kind)
    pub kinds: Vec<(Vec<TypeKind>, TypeKind)>,
    /// number of type references with several acceptable resolutions
    pub ambiguous: u64,
    /// lib chose a kind outside the allowed set somewhere (C05 reports it; dependent expectations of C06-C08 are then unreliable)
    pub kind_mismatch: bool,
    /// lenient cells: (class, range) accepted with 0 or 1 diagnostic
    pub lenient: Vec<(&'static str, (usize, usize))>,
    /// expected post-validation oneway flag per method
    pub oneway: Vec<bool>,
    /// coverage: (container, child category, depth)
    pub container_cells: Vec<(Cat, Cat, usize, &'static str)>,
    /// coverage: (category, direction, oneway) per argument
    pub arg_cells: Vec<(Cat, &'static str, bool)>,
    /// coverage: resolution path per custom reference
    pub resolution_paths: Vec<(&'static str, usize, &'static str)>,
    pub import_classes: Vec<&'static str>,
    pub decl_classes: Vec<&'static str>,
}

fn array_child_ok(c: Cat) -> bool {
    matches!(c, Cat::Primitive | Cat::Str | Cat::Enum | Cat::Parcelable | Cat::Forward | Cat::UnknownImport | Cat::IBinder | Cat::FileDescriptor | Cat::Pfd | Cat::Unresolved)
}
fn list_child_ok(c: Cat) -> bool {
    matches!(c, Cat::Str | Cat::Parcelable | Cat::Forward | Cat::UnknownImport | Cat::IBinder | Cat::Pfd | Cat::Unresolved)
}
fn map_value_ok(c: Cat) -> bool {
    !matches!(c, Cat::Primitive | Cat::Void | Cat::Enum)
}

#[derive(Clone, Copy, PartialEq, Eq)]
enum DirReq {
    Required,
    InOrNone,
    InOrInout,
    Never,
    Nothing,
}

fn dir_req(c: Cat) -> DirReq {
    match c {
        Cat::Array | Cat::List | Cat::Map | Cat::Parcelable | Cat::Forward => DirReq::Required,
        Cat::Primitive | Cat::Void | Cat::Str | Cat::CharSeq | Cat::Interface | Cat::Enum | Cat::IBinder | Cat::FileDescriptor | Cat::UnknownImport => DirReq::InOrNone,
        Cat::Pfd => DirReq::InOrInout,
        Cat::Holder => DirReq::Never,
        Cat::Unresolved => DirReq::Nothing,
    }
}

/// `stage`: parse-stage tree (explicit oneway flags, unresolved kinds); `valid`: validated tree of the same file.
pub fn expect_file(stage: &ast::Aidl, valid: &ast::Aidl, keys: &KeyTable) -> FileExpect {
    let imports: Vec<String> = stage.imports.iter().map(|i| i.get_qualified_name()).collect();
    let declared: Vec<String> = stage.declared_parcelables.iter().map(|i| i.get_qualified_name()).collect();
    let mut fe = FileExpect {
        diags: vec![],
        kinds: vec![],
        ambiguous: 0,
        kind_mismatch: false,
        lenient: vec![],
        oneway: vec![],
        container_cells: vec![],
        arg_cells: vec![],
        resolution_paths: vec![],
        import_classes: vec![],
        decl_classes: vec![],
    };

    // --- resolution (C05) -------------------------------------------------
    let st_types = astx::all_types(stage);
    let va_types = astx::all_types(valid);
    // chosen kind per type node address (of the stage tree)
    let mut chosen: HashMap<*const ast::Type, TypeKind> = HashMap::new();
    let mut used: HashSet<String> = HashSet::new();
    let same_shape = st_types.len() == va_types.len();
    for (i, (t, depth, place)) in st_types.iter().enumerate() {
        let lib_kind: Option<&TypeKind> = if same_shape { Some(&va_types[i].0.kind) } else { None };
        let (allowed, pick) = if t.kind == TypeKind::Unresolved {
            let allowed = allowed_kinds(&t.name, &imports, &declared, keys);
            if allowed.len() > 1 {
                fe.ambiguous += 1;
            }
            let pick = match lib_kind {
                Some(k) if allowed.contains(k) => k.clone(),
                _ => {
                    allowed[0].clone()
                }
            };
            let path = match &pick {
                TypeKind::ResolvedItem(_, ResolvedItemKind::UnknownImport) => "import->unknown",
                TypeKind::ResolvedItem(q, ResolvedItemKind::ForwardDeclaredParcelable) if !imports.contains(q) => "forward_declaration",
                TypeKind::ResolvedItem(q, _) => {
                    if *q == t.name {
                        "import(exact)"
                    } else if t.name.contains('.') {
                        "import(partial qualification)"
                    } else {
                        "import(simple name)"
                    }
                }
                TypeKind::AndroidType(_) => {
                    if t.name.contains('.') {
                        "builtin(qualified)"
                    } else if imports.iter().any(|i| builtin_by_qualified(i).is_some() && i.ends_with(&format!(".{}", t.name))) {
                        "builtin(imported)"
                    } else {
                        "builtin(simple)"
                    }
                }
                _ => "unresolved",
            };
            fe.resolution_paths.push((path, *depth, place));
            (allowed, pick)
        } else {
            (vec![t.kind.clone()], t.kind.clone())
        };
        if let Some(k) = lib_kind {
            if !allowed.contains(k) {
                fe.kind_mismatch = true;
            }
        } else {
            fe.kind_mismatch = true;
        }
        match &pick {
            TypeKind::ResolvedItem(q, _) => {
                used.insert(q.clone());
            }
            TypeKind::AndroidType(a) => {
                used.insert(a.get_qualified_name().to_string());
            }
            TypeKind::Unresolved => {
                fe.diags.push(ex("unknown_type", true, &t.symbol_range));
            }
            _ => {}
        }
        chosen.insert(*t as *const ast::Type, pick.clone());
        fe.kinds.push((allowed, pick));
    }
    let cat = |t: &ast::Type| -> Cat { cat_of_kind(chosen.get(&(t as *const ast::Type)).unwrap_or(&t.kind)) };

    // --- imports (C06) ----------------------------------------------------
    let mut first_import: BTreeMap<String, &ast::Import> = BTreeMap::new();
    for imp in &stage.imports {
        let q = imp.get_qualified_name();
        if let Some(prev) = first_import.get(&q) {
            let mut e = ex("dup_import", true, &imp.symbol_range);
            e.related = Some(vec![rg(&prev.symbol_range)]);
            fe.diags.push(e);
            fe.import_classes.push("duplicate");
            continue;
        }
        first_import.insert(q.clone(), imp);
        if !keys.contains_key(&q) && builtin_by_qualified(&q).is_none() {
            fe.diags.push(ex("unresolved_import", false, &imp.symbol_range));
            fe.import_classes.push("unresolved");
        } else if !used.contains(&q) {
            fe.diags.push(ex("unused_import", false, &imp.symbol_range));
            fe.import_classes.push(if builtin_by_qualified(&q).is_some() { "builtin_unused" } else { "resolvable_unused" });
        } else {
            fe.import_classes.push(if builtin_by_qualified(&q).is_some() { "builtin_used" } else { "used" });
        }
    }
    // --- forward declarations (C06) ----------------------------------------
    let mut first_decl: BTreeMap<String, &ast::Import> = BTreeMap::new();
    for d in &stage.declared_parcelables {
        let q = d.get_qualified_name();
        let conflicting: Vec<(usize, usize)> = first_import.values().filter(|i| i.name == d.name).map(|i| rg(&i.symbol_range)).collect();
        if !conflicting.is_empty() {
            let mut e = ex("decl_conflict", true, &d.symbol_range);
            e.related = None;
            e.related_any_of = conflicting;
            fe.diags.push(e);
            fe.decl_classes.push("conflicts_with_import");
            continue;
        }
        if let Some(prev) = first_decl.get(&q) {
            let mut e = ex("decl_multiple", true, &d.symbol_range);
            e.related = Some(vec![rg(&prev.symbol_range)]);
            fe.diags.push(e);
            fe.decl_classes.push("repeated");
            continue;
        }
        first_decl.insert(q.clone(), d);
    }
    for (q, d) in &first_decl {
        if used.contains(q) {
            fe.diags.push(ex("decl_usage", false, &d.full_range));
            fe.decl_classes.push("used");
        } else {
            fe.diags.push(ex("decl_unused", false, &d.symbol_range));
            fe.decl_classes.push(if q.contains('.') { "unused(qualified)" } else { "unused" });
        }
    }

    // --- containers (C08) ---------------------------------------------------
    for (t, depth, place) in &st_types {
        match t.kind {
            TypeKind::Array => {
                if let Some(c) = t.generic_types.first() {
                    let cc = cat(c);
                    fe.container_cells.push((Cat::Array, cc, *depth, place));
                    if cc == Cat::Array {
                        fe.diags.push(ex("array_multi", true, &c.symbol_range));
                    } else if !array_child_ok(cc) {
                        fe.diags.push(ex("array_elem", true, &c.symbol_range));
                    }
                }
            }
            TypeKind::List => {
                if t.generic_types.is_empty() {
                    fe.diags.push(ex("raw_list", false, &t.symbol_range));
                    fe.container_cells.push((Cat::List, Cat::Void, *depth, "raw"));
                } else {
                    let c = &t.generic_types[0];
                    let cc = cat(c);
                    fe.container_cells.push((Cat::List, cc, *depth, place));
                    if !list_child_ok(cc) {
                        fe.diags.push(ex("list_elem", true, &c.symbol_range));
                    }
                }
            }
            TypeKind::Map => {
                if t.generic_types.len() < 2 {
                    fe.diags.push(ex("raw_map", false, &t.symbol_range));
                    fe.container_cells.push((Cat::Map, Cat::Void, *depth, "raw"));
                } else {
                    let (k, v) = (&t.generic_types[0], &t.generic_types[1]);
                    let (kc, vc) = (cat(k), cat(v));
                    fe.container_cells.push((Cat::Map, kc, *depth, "key"));
                    fe.container_cells.push((Cat::Map, vc, *depth, "value"));
                    if kc == Cat::Unresolved {
                        fe.lenient.push(("map_key", rg(&k.symbol_range)));
                    } else if kc != Cat::Str {
                        fe.diags.push(ex("map_key", true, &k.symbol_range));
                    }
                    if !map_value_ok(vc) {
                        fe.diags.push(ex("map_value", true, &v.symbol_range));
                    }
                }
            }
            _ => {}
        }
    }

    // --- methods: oneway (C10), directions (C07), names/ids (C09) -----------
    if let ast::Item::Interface(iface) = &stage.item {
        let mut names: HashMap<&str, &ast::Method> = HashMap::new();
        let mut codes: HashMap<u32, &ast::Method> = HashMap::new();
        let mut first_with: Option<&ast::Method> = None;
        let mut first_without: Option<&ast::Method> = None;
        let mut mixed_reported = false;
        for m in iface.elements.iter().filter_map(|e| e.as_method()) {
            let oneway = m.oneway || iface.oneway;
            fe.oneway.push(oneway);
            if iface.oneway && m.oneway {
                let mut e = ex("redundant_oneway", false, &m.oneway_range);
                e.related = None;
                fe.diags.push(e);
            }
            if oneway && cat(&m.return_type) != Cat::Void {
                fe.diags.push(ex("oneway_return", true, &m.return_type.symbol_range));
            }
            for a in &m.args {
                let c = cat(&a.arg_type);
                let (dname, r) = match &a.direction {
                    ast::Direction::In(r) => ("in", rg(r)),
                    ast::Direction::Out(r) => ("out", rg(r)),
                    ast::Direction::InOut(r) => ("inout", rg(r)),
                    ast::Direction::Unspecified => ("none", (a.arg_type.symbol_range.start.offset, a.arg_type.symbol_range.start.offset)),
                };
                fe.arg_cells.push((c, dname, oneway));
                let broken = match dir_req(c) {
                    DirReq::Required => dname == "none",
                    DirReq::InOrNone => !(dname == "none" || dname == "in"),
                    DirReq::InOrInout => !(dname == "in" || dname == "inout"),
                    DirReq::Never => true,
                    DirReq::Nothing => false,
                };
                let mk = || Expect { class: "direction", error: true, range: r, related: Some(vec![]), related_any_of: vec![] };
                if broken {
                    fe.diags.push(mk());
                }
                if oneway && (dname == "out" || dname == "inout") {
                    fe.diags.push(mk());
                }
            }
            // names / ids
            if let Some(prev) = names.get(m.name.as_str()) {
                let mut e = ex("dup_method_name", true, &m.symbol_range);
                e.related = Some(vec![rg(&prev.symbol_range)]);
                fe.diags.push(e);
                continue;
            }
            names.insert(m.name.as_str(), m);
            let has = m.transact_code.is_some();
            if !mixed_reported && ((has && first_with.is_none() && first_without.is_some()) || (!has && first_without.is_none() && first_with.is_some())) {
                let mut e = ex("mixed_ids", true, &m.transact_code_range);
                e.related = None;
                fe.diags.push(e);
                mixed_reported = true;
            }
            if has {
                if first_with.is_none() {
                    first_with = Some(m);
                }
            } else if first_without.is_none() {
                first_without = Some(m);
            }
            if let Some(code) = m.transact_code {
                if let Some(prev) = codes.get(&code) {
                    let mut e = ex("dup_method_id", true, &m.transact_code_range);
                    e.related = Some(vec![rg(&prev.transact_code_range)]);
                    fe.diags.push(e);
                } else {
                    codes.insert(code, m);
                }
            }
        }
    }
    fe
}

#[derive(Clone, Debug)]
pub struct Mismatch {
    pub class: &'static str,
    pub what: String,
}

/// Compare the library's validation diagnostics with the expectation, per class.
pub fn compare(fe: &FileExpect, lib_validation_diags: &[Diagnostic]) -> (Vec<Mismatch>, u64, u64) {
    let mut out = Vec::new();
    let mut unclassified = 0u64;
    let mut matched = 0u64;
    // group lib diagnostics
    let mut lib: Vec<(&'static str, bool, (usize, usize), Vec<(usize, usize)>, bool)> = Vec::new();
    for d in lib_validation_diags {
        match classify(d) {
            Some(c) => lib.push((c, d.kind == DiagnosticKind::Error, rg(&d.range), d.related_infos.iter().map(|r| rg(&r.range)).collect(), false)),
            None => unclassified += 1,
        }
    }
    for e in &fe.diags {
        // find an unused lib diagnostic of the same class and range
        let pos = lib.iter().position(|l| !l.4 && l.0 == e.class && l.2 == e.range);
        match pos {
            None => out.push(Mismatch { class: e.class, what: format!("missing: expected one {} {} at [{}..{}]", e.class, if e.error { "Error" } else { "Warning" }, e.range.0, e.range.1) }),
            Some(p) => {
                lib[p].4 = true;
                matched += 1;
                if lib[p].1 != e.error {
                    out.push(Mismatch { class: e.class, what: format!("{} at [{}..{}] has the wrong severity", e.class, e.range.0, e.range.1) });
                }
                if let Some(rel) = &e.related {
                    if !rel.is_empty() && lib[p].3 != *rel {
                        out.push(Mismatch { class: e.class, what: format!("{} at [{}..{}] points back to {:?}, expected {:?}", e.class, e.range.0, e.range.1, lib[p].3, rel) });
                    }
                } else if !e.related_any_of.is_empty() && !(lib[p].3.len() == 1 && e.related_any_of.contains(&lib[p].3[0])) {
                    out.push(Mismatch { class: e.class, what: format!("{} at [{}..{}] points to {:?}, expected one of {:?}", e.class, e.range.0, e.range.1, lib[p].3, e.related_any_of) });
                }
            }
        }
    }
    let mut lenient_used = vec![false; fe.lenient.len()];
    for l in lib.iter_mut() {
        if l.4 {
            continue;
        }
        // lenient cells accept one extra diagnostic
        if let Some(i) = fe.lenient.iter().enumerate().position(|(i, (c, r))| !lenient_used[i] && *c == l.0 && *r == l.2) {
            lenient_used[i] = true;
            l.4 = true;
            continue;
        }
        out.push(Mismatch { class: l.0, what: format!("unexpected: {} {} at [{}..{}]", l.0, if l.1 { "Error" } else { "Warning" }, l.2 .0, l.2 .1) });
    }
    (out, matched, unclassified)
}
