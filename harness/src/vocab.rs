//! Dictionary harvested from the library's own sources (like a fuzzer's
//! auto-dictionary): every string, character and integer literal of
//! /repo/src/**.{rs,lalrpop} is a value the code treats specially somewhere.
//! The generators mix these values into their vocabularies (identifiers,
//! qualified names, annotation names, numbers, counts, doc words, characters),
//! so a special case keyed on a literal - present or newly introduced - is
//! exercised without anybody having to guess the literal. Deterministic for a
//! given working tree (sorted, de-duplicated).

use crate::prng::Rng;
use crate::reflex;
use std::sync::OnceLock;

#[derive(Default, Debug)]
pub struct Vocab {
    /// valid identifiers (not keywords)
    pub idents: Vec<String>,
    /// dotted names whose segments are all valid identifiers (>= 2 segments)
    pub dotted: Vec<String>,
    /// integer literals (2 ..= u32::MAX)
    pub numbers: Vec<u64>,
    /// small numbers usable as counts / lengths / depths (2 ..= 5000)
    pub thresholds: Vec<usize>,
    /// words of string literals without whitespace, '@', '*', '/'
    pub words: Vec<String>,
    /// non-ASCII or control characters from string / char literals
    pub chars: Vec<char>,
}

fn src_dir() -> String {
    std::env::var("VERIF_REPO_SRC").unwrap_or_else(|_| "/repo/src".to_string())
}

fn collect_files(dir: &std::path::Path, out: &mut Vec<std::path::PathBuf>) {
    let Ok(rd) = std::fs::read_dir(dir) else { return };
    let mut entries: Vec<_> = rd.flatten().map(|e| e.path()).collect();
    entries.sort();
    for p in entries {
        if p.is_dir() {
            if p.file_name().map_or(false, |n| n == "snapshots") {
                continue;
            }
            collect_files(&p, out);
        } else if p.extension().map_or(false, |e| e == "rs" || e == "lalrpop") {
            out.push(p);
        }
    }
}

fn unescape(s: &str) -> String {
    let mut out = String::new();
    let cs: Vec<char> = s.chars().collect();
    let mut i = 0;
    while i < cs.len() {
        if cs[i] == '\\' && i + 1 < cs.len() {
            match cs[i + 1] {
                'n' => out.push('\n'),
                'r' => out.push('\r'),
                't' => out.push('\t'),
                '0' => out.push('\0'),
                '\\' => out.push('\\'),
                '"' => out.push('"'),
                '\'' => out.push('\''),
                'u' if i + 2 < cs.len() && cs[i + 2] == '{' => {
                    if let Some(end) = cs[i + 3..].iter().position(|c| *c == '}') {
                        let hex: String = cs[i + 3..i + 3 + end].iter().collect();
                        if let Some(c) = u32::from_str_radix(&hex, 16).ok().and_then(char::from_u32) {
                            out.push(c);
                        }
                        i += 3 + end + 1;
                        continue;
                    }
                }
                'x' if i + 3 < cs.len() => {
                    let hex: String = cs[i + 2..i + 4].iter().collect();
                    if let Some(c) = u32::from_str_radix(&hex, 16).ok().and_then(char::from_u32) {
                        out.push(c);
                    }
                    i += 4;
                    continue;
                }
                other => out.push(other),
            }
            i += 2;
        } else {
            out.push(cs[i]);
            i += 1;
        }
    }
    out
}

fn is_ident(w: &str) -> bool {
    !w.is_empty()
        && w.len() <= 80
        && w.chars().next().map_or(false, |c| c.is_ascii_alphabetic() || c == '_')
        && w.chars().all(|c| c.is_ascii_alphanumeric() || c == '_')
        && !reflex::is_non_ident_word(w)
}

fn harvest() -> Vocab {
    let mut files = Vec::new();
    collect_files(std::path::Path::new(&src_dir()), &mut files);
    let mut v = Vocab::default();
    for f in files {
        let Ok(text) = std::fs::read_to_string(&f) else { continue };
        let cs: Vec<char> = text.chars().collect();
        let mut i = 0;
        while i < cs.len() {
            let c = cs[i];
            // line comments: skip
            if c == '/' && i + 1 < cs.len() && cs[i + 1] == '/' {
                while i < cs.len() && cs[i] != '\n' {
                    i += 1;
                }
                continue;
            }
            if c == '"' {
                // string literal (also the body of r"..." / r#"..."# closely enough for a dictionary)
                let mut j = i + 1;
                let mut raw = String::new();
                while j < cs.len() && cs[j] != '"' {
                    if cs[j] == '\\' && j + 1 < cs.len() {
                        raw.push(cs[j]);
                        raw.push(cs[j + 1]);
                        j += 2;
                        continue;
                    }
                    raw.push(cs[j]);
                    j += 1;
                }
                let s = unescape(&raw);
                if s.len() <= 200 {
                    for ch in s.chars() {
                        if !ch.is_ascii() || (ch.is_control() && ch != '\n' && ch != '\r' && ch != '\t') {
                            v.chars.push(ch);
                        }
                    }
                    for w in s.split(|ch: char| ch.is_whitespace()) {
                        if !w.is_empty() && w.len() <= 40 && !w.contains(['@', '*', '/', '`']) {
                            v.words.push(w.to_string());
                        }
                    }
                    // identifiers and dotted names inside the string
                    for w in s.split(|ch: char| !(ch.is_ascii_alphanumeric() || ch == '_' || ch == '.')) {
                        let w = w.trim_matches('.');
                        if w.contains('.') {
                            let segs: Vec<&str> = w.split('.').collect();
                            if segs.len() >= 2 && segs.len() <= 8 && segs.iter().all(|s| is_ident(s)) {
                                v.dotted.push(w.to_string());
                            }
                            for s in segs {
                                if is_ident(s) {
                                    v.idents.push(s.to_string());
                                }
                            }
                        } else if is_ident(w) {
                            v.idents.push(w.to_string());
                        }
                    }
                    for w in s.split(|ch: char| !ch.is_ascii_digit()) {
                        if let Ok(n) = w.parse::<u64>() {
                            if n >= 2 && n <= u32::MAX as u64 {
                                v.numbers.push(n);
                            }
                        }
                    }
                }
                i = j + 1;
                continue;
            }
            if c == '\'' && i + 2 < cs.len() {
                // char literal
                let mut j = i + 1;
                let mut raw = String::new();
                while j < cs.len() && cs[j] != '\'' && j - i < 12 {
                    if cs[j] == '\\' && j + 1 < cs.len() {
                        raw.push(cs[j]);
                        raw.push(cs[j + 1]);
                        j += 2;
                        continue;
                    }
                    raw.push(cs[j]);
                    j += 1;
                }
                if j < cs.len() && cs[j] == '\'' {
                    let s = unescape(&raw);
                    if s.chars().count() == 1 {
                        let ch = s.chars().next().unwrap();
                        if !ch.is_ascii() || (ch.is_control() && ch != '\n' && ch != '\r' && ch != '\t') {
                            v.chars.push(ch);
                        }
                    }
                    i = j + 1;
                    continue;
                }
            }
            if c.is_ascii_digit() && (i == 0 || !(cs[i - 1].is_ascii_alphanumeric() || cs[i - 1] == '_')) {
                // integer literal (decimal, with optional underscores / type suffix; hex too)
                let mut j = i;
                let mut digits = String::new();
                let hex = c == '0' && i + 1 < cs.len() && (cs[i + 1] == 'x' || cs[i + 1] == 'X');
                if hex {
                    j += 2;
                    while j < cs.len() && (cs[j].is_ascii_hexdigit() || cs[j] == '_') {
                        if cs[j] != '_' {
                            digits.push(cs[j]);
                        }
                        j += 1;
                    }
                } else {
                    while j < cs.len() && (cs[j].is_ascii_digit() || cs[j] == '_') {
                        if cs[j] != '_' {
                            digits.push(cs[j]);
                        }
                        j += 1;
                    }
                }
                let n = if hex { u64::from_str_radix(&digits, 16).ok() } else { digits.parse::<u64>().ok() };
                if let Some(n) = n {
                    if n >= 2 && n <= u32::MAX as u64 + 1 {
                        v.numbers.push(n);
                    }
                }
                i = j.max(i + 1);
                continue;
            }
            i += 1;
        }
    }
    v.idents.sort();
    v.idents.dedup();
    v.dotted.sort();
    v.dotted.dedup();
    v.words.sort();
    v.words.dedup();
    v.chars.sort();
    v.chars.dedup();
    v.numbers.sort();
    v.numbers.dedup();
    v.thresholds = v.numbers.iter().filter(|n| **n >= 2 && **n <= 5000).map(|n| *n as usize).collect();
    v
}

pub fn get() -> &'static Vocab {
    static V: OnceLock<Vocab> = OnceLock::new();
    V.get_or_init(harvest)
}

pub fn ident(rng: &mut Rng) -> Option<String> {
    let v = get();
    if v.idents.is_empty() {
        None
    } else {
        Some(rng.pick(&v.idents).clone())
    }
}

pub fn dotted(rng: &mut Rng) -> Option<String> {
    let v = get();
    if v.dotted.is_empty() {
        None
    } else {
        Some(rng.pick(&v.dotted).clone())
    }
}

/// a harvested number that fits u32, possibly off by one
pub fn number_u32(rng: &mut Rng) -> Option<u64> {
    let v = get();
    if v.numbers.is_empty() {
        return None;
    }
    let n = *rng.pick(&v.numbers);
    let n = match rng.below(4) {
        0 => n.saturating_sub(1),
        1 => n + 1,
        _ => n,
    };
    Some(n.min(u32::MAX as u64))
}

/// a count / length / depth around a harvested threshold (capped)
pub fn threshold(rng: &mut Rng, cap: usize) -> Option<usize> {
    let v = get();
    let cands: Vec<usize> = v.thresholds.iter().copied().filter(|n| *n <= cap).collect();
    if cands.is_empty() {
        return None;
    }
    let n = *rng.pick(&cands);
    Some(match rng.below(4) {
        0 => n.saturating_sub(1).max(1),
        1 => (n + 1).min(cap),
        _ => n,
    })
}

pub fn word(rng: &mut Rng) -> Option<String> {
    let v = get();
    if v.words.is_empty() {
        None
    } else {
        Some(rng.pick(&v.words).clone())
    }
}

pub fn special_char(rng: &mut Rng) -> Option<char> {
    let v = get();
    if v.chars.is_empty() {
        None
    } else {
        Some(*rng.pick(&v.chars))
    }
}

/// a harvested character on which the reference lexer is exact (no decimal digits of scripts it does not know)
pub fn lex_safe_char(rng: &mut Rng) -> Option<char> {
    let v = get();
    let cands: Vec<char> = v.chars.iter().copied().filter(|c| !c.is_numeric() || reflex::is_udigit(*c)).collect();
    if cands.is_empty() {
        None
    } else {
        Some(*rng.pick(&cands))
    }
}
