//! C01 — parsing and validation are total: any text, no panic / abort / hang,
//! one result per id. Cases run in worker sub-processes so that aborts and
//! hangs are observed and attributed; the same worker binary is run natively,
//! under ASan, under valgrind memcheck and (a micro-slice) under Miri.

use crate::gen::{self, GenCfg, LayoutStyle};
use crate::mutate;
use crate::prng::{hash_str, Rng};
use crate::runner::*;
use crate::syncases;
use aidl_parser::Parser;
use serde_json::json;
use std::collections::{BTreeMap, BTreeSet};
use std::io::{BufRead, BufReader, Write};
use std::process::{Child, Command, Stdio};
use std::sync::{Arc, Mutex};
use std::time::{Duration, Instant};

// ---------------------------------------------------------------------------
// Workload definition (shared by parent and worker: both derive a case from (seed, stage, idx))

#[derive(Clone, Debug)]
pub struct StageDef {
    pub name: &'static str,
    pub n: u64,
}

pub fn stages(tier: Tier, mode: &str) -> Vec<StageDef> {
    // mode: native | asan | valgrind | miri
    let s = |name: &'static str, q: u64, t: u64, asan: u64, vg: u64, miri: u64| StageDef {
        name,
        n: match (mode, tier) {
            ("native", Tier::Quick) => q,
            ("native", Tier::Thorough) => t,
            ("asan", _) => asan,
            ("valgrind", _) => vg,
            ("miri", _) => miri,
            _ => q,
        },
    };
    vec![
        s("directed", DIRECTED.len() as u64, DIRECTED.len() as u64, DIRECTED.len() as u64, DIRECTED.len() as u64, 4),
        s("char_soup", 12_000, 250_000, 8_000, 1_200, 1),
        s("token_soup", 14_000, 300_000, 8_000, 1_200, 2),
        s("mutated", 10_000, 200_000, 6_000, 1_000, 1),
        s("inject", 24_000, 240_000, 8_000, 1_200, 0),
        s("large_docs", 500, 8_000, 300, 60, 0),
        s("size", SIZE_SHAPES as u64, SIZE_SHAPES as u64 * 12, SIZE_SHAPES as u64, SIZE_SHAPES as u64, 0),
    ]
}

pub const DIRECTED: &[&str] = &[
    "package p; /**é*/ interface I {}",
    "package p; interface I { void f() =\u{a0}9999999999; }",
    "",
    "\u{feff}package p; interface I {}",
    "package p; interface I { /** Größe */ void f(); }",
    "package p; enum E { /**😀*/ A, /** e\u{301} */ B }",
    "package p; interface I { void f(/**é*/ in int x); }",
    "/**",
    "/**/",
    "/***/",
    "package p; parcelable P { int x = \"é",
    "package p; interface I { void f() = 99999999999999999999999999999999999999; }",
    "package p;\r\ninterface I {\r\n/**\r\n * é\r\n */\r\nvoid f();\r\n}\r\n",
    "\0",
    "package \u{2028} p \u{2029}; interface\u{85}I{}",
    "package p; interface I { void f() =\u{3000}4294967296 ; }",
    "\u{feff}package p; interface I { const String S = \"€\"; }",
    "\u{feff}x",
    "\u{feff}\u{feff}package p; /** é */ enum E { A }",
    "\u{feff}/** 漢 */ package p; parcelable P { int x; }",
];

pub const SIZE_SHAPES: usize = 10;

fn size_case(idx: u64, rng: &mut Rng, max_bytes: usize, quad_bytes: usize) -> (String, String) {
    let shape = (idx as usize) % SIZE_SHAPES;
    let vary = idx as usize / SIZE_SHAPES;
    // later repetitions vary size and content
    let r1 = rng.below(1000);
    let scale = |b: usize| if vary == 0 { b } else { b / (1 + (vary % 4)) + (b / 8 + 1) * r1 / 1000 };
    let fill = |head: &str, unit: &dyn Fn(usize) -> String, tail: &str, bytes: usize| -> String {
        let mut s = String::from(head);
        let mut i = 0;
        while s.len() + tail.len() < bytes {
            s.push_str(&unit(i));
            i += 1;
        }
        s.push_str(tail);
        s
    };
    match shape {
        0 => ("imports_one_line".into(), fill("package p; ", &|i| format!("import a.b.C{i}; "), "interface I {}", scale(quad_bytes))),
        1 => ("methods_one_line".into(), fill("package p; interface I { ", &|i| format!("void m{i}(in int a); "), "}", scale(quad_bytes))),
        2 => ("enum_elements_one_line".into(), fill("package p; enum E { ", &|i| format!("E{i}, "), "}", scale(quad_bytes))),
        3 => ("fields_multi_line".into(), fill("package p;\nparcelable P {\n", &|i| format!("  /** doc é {i} */\n  List<String> f{i} = {{1, 2}};\n"), "}\n", scale(quad_bytes))),
        4 => ("huge_comment".into(), {
            let body = fill("", &|i| if i % 7 == 0 { "é* /".to_string() } else { "comment ".to_string() }, "", scale(max_bytes) - 64);
            format!("package p; /*{body}*/ interface I {{ /**{}*/ void f(); }}", &body[..body.len().min(4096)].replace("*/", "* "))
        }),
        5 => ("generic_nesting_64".into(), {
            let depth = 64;
            let mut t = String::from("int");
            for d in 0..depth {
                t = if d % 3 == 0 { format!("List<{t}>") } else if d % 3 == 1 { format!("Map<String,{t}>") } else { format!("{t}[]") };
            }
            format!("package p; interface I {{ {t} f(in {t} a); }}")
        }),
        6 => ("long_identifiers".into(), {
            let id = "a".repeat(2048);
            fill("package p; interface I { ", &|i| format!("void {id}{i}({id} x); "), "}", scale(max_bytes / 2))
        }),
        7 => ("long_string_and_value_nesting".into(), {
            let s = "é\\".repeat(scale(max_bytes) / 8);
            let mut v = String::from("1");
            for _ in 0..64 {
                v = format!("{{{v}}}");
            }
            format!("package p; parcelable P {{ String s = \"{s}\"; int[] a = {v}; }}")
        }),
        8 => ("many_args_one_line".into(), fill("package p; interface I { void f(", &|i| format!("in int a{i}, "), "); }", scale(quad_bytes / 2))),
        _ => ("unterminated_tail".into(), {
            let mut s = fill("package p; interface I { ", &|i| format!("@A(x={i}) void m{i}(); "), "", scale(quad_bytes / 2));
            s.push_str(rng.pick_str(&["/* never closed", "\"never closed", "@", "void f(", "/** é"]));
            s
        }),
    }
}

fn inject_case(idx: u64, seed: u64) -> Option<(String, String)> {
    const PER_DOC: u64 = 6000;
    let doc_i = idx / PER_DOC;
    let within = (idx % PER_DOC) as usize;
    let mut drng = Rng::for_case(seed, "inject-doc", doc_i);
    let cfg = GenCfg { max_members: 2, max_args: 2, max_type_depth: 2, max_imports: 1, max_declared: 1, ann_num: 1, ann_den: 2, ..GenCfg::default() };
    let d = gen::doc(&mut drng, &cfg);
    let r = gen::render(&d);
    let style = if doc_i % 2 == 0 { LayoutStyle::Wild } else { LayoutStyle::Plain };
    let laid = gen::layout(&r.toks, &mut drng, style, &r.forced);
    let text = laid.text;
    let bounds: Vec<usize> = text.char_indices().map(|x| x.0).chain(std::iter::once(text.len())).collect();
    let n_snip = mutate::INJECT.len();
    let pos_i = within / n_snip;
    if pos_i >= bounds.len() {
        return None;
    }
    let snip = mutate::INJECT[within % n_snip];
    let at = bounds[pos_i];
    let mut out = String::with_capacity(text.len() + snip.len());
    out.push_str(&text[..at]);
    out.push_str(snip);
    out.push_str(&text[at..]);
    Some((format!("inject:{:?}", snip), out))
}

/// The files of one case: (label, [(id, content)]).
pub fn make_case(seed: u64, tier: Tier, mode: &str, stage: &str, idx: u64) -> Option<(String, Vec<(String, String)>)> {
    let mut rng = Rng::for_case(seed, stage, idx);
    let long_id = "i".repeat(300);
    let ids = ["a", "b", "c", "d", "e", "f", "a", "b", "", " ", "a ", "A", "é", long_id.as_str(), "../a", "a\0b"];
    let multi = |rng: &mut Rng, f: &mut dyn FnMut(&mut Rng) -> String| -> Vec<(String, String)> {
        let n = match rng.below(10) {
            0..=5 => 1,
            6 | 7 => 2,
            8 => rng.range(3, 4),
            _ => rng.range(5, 6),
        };
        (0..n).map(|_| (rng.pick_str(&ids).to_string(), f(rng))).collect()
    };
    // a byte order mark in front of the first file once in a while (editors write it; the library must cope)
    let bom = |rng: &mut Rng, mut v: Vec<(String, String)>| -> Vec<(String, String)> {
        if rng.chance(1, 12) {
            if let Some(f) = v.first_mut() {
                f.1.insert(0, '\u{feff}');
            }
        }
        v
    };
    match stage {
        "directed" => Some(("directed".into(), vec![("a".into(), DIRECTED.get(idx as usize)?.to_string())])),
        "char_soup" => {
            let extra = rng.chance(1, 4);
            let v = multi(&mut rng, &mut |r| {
                    let mut s = mutate::char_soup(r, 200);
                    if extra {
                        let at = r.below(s.chars().count() + 1);
                        let b = s.char_indices().nth(at).map(|x| x.0).unwrap_or(s.len());
                        s.insert_str(b, r.pick_str(mutate::SOUP_EXTRA));
                    }
                    s
                });
            Some(("char_soup".into(), bom(&mut rng, v)))
        }
        "token_soup" => {
            let v = multi(&mut rng, &mut |r| mutate::token_soup(r, 60));
            Some(("token_soup".into(), bom(&mut rng, v)))
        }
        "mutated" => {
            let v = multi(&mut rng, &mut |r| {
                let (_, mut t) = syncases::mutation_case(r);
                if r.chance(1, 3) {
                    t = mutate::char_splice(r, &t);
                }
                t
            });
            Some(("mutated".into(), bom(&mut rng, v)))
        }
        "large_docs" => {
            // generated documents with many members in wild layouts (multi-byte comments and doc comments everywhere), 4-30 KiB
            let cfg = GenCfg { max_members: 30 + rng.below(if mode == "native" { 120 } else { 30 }), max_args: 4, max_type_depth: 3, ann_num: 1, ann_den: 3, ..GenCfg::default() };
            let mut d = gen::doc(&mut rng, &cfg);
            let mut guard = 0;
            while d.item.members.len() < 25 && guard < 20 {
                d = gen::doc(&mut rng, &cfg);
                guard += 1;
            }
            let r = gen::render(&d);
            let style = *rng.pick(&[LayoutStyle::Wild, LayoutStyle::Wild, LayoutStyle::Crlf, LayoutStyle::Plain]);
            let mut text = gen::layout(&r.toks, &mut rng, style, &r.forced).text;
            if rng.chance(1, 3) {
                text = mutate::char_splice(&mut rng, &text);
            }
            Some(("large_docs".into(), bom(&mut rng, vec![("a".to_string(), text)])))
        }
        "inject" => inject_case(idx, seed).map(|(l, t)| (l, vec![("a".to_string(), t)])),
        "size" => {
            // sanitizer stages: inputs <= 8 KiB (the library is quadratic in file size)
            let (max_b, quad_b) = match (mode, tier) {
                ("native", Tier::Quick) => (65_536, 20_000),
                ("native", Tier::Thorough) => (65_536, 65_536),
                _ => (8_192, 8_192),
            };
            let (l, t) = size_case(idx, &mut rng, max_b, quad_b);
            Some((format!("size:{l}"), vec![("a".to_string(), t)]))
        }
        _ => None,
    }
}

// ---------------------------------------------------------------------------
// Worker

fn one_line(s: &str) -> String {
    s.chars().map(|c| if c == '\n' || c == '\r' || c == '\t' { ' ' } else { c }).take(300).collect()
}

/// Run one case; returns a status line payload.
fn exec_case(files: &[(String, String)]) -> String {
    let res = lib(|| {
        let mut p: Parser<String> = Parser::new();
        for (id, c) in files {
            p.add_content(id.clone(), c);
        }
        let out = p.validate();
        let again = p.validate();
        (out, again.len())
    });
    match res {
        Err(p) => format!("PANIC {}", one_line(&p)),
        Ok((out, again_len)) => {
            let want: BTreeSet<&String> = files.iter().map(|f| &f.0).collect();
            let got: BTreeSet<&String> = out.keys().collect();
            if want != got || again_len != out.len() {
                return format!("KEYS want={:?} got={:?}", want, got);
            }
            for (k, v) in &out {
                if &v.id != k {
                    return format!("IDTAG key={k} tagged={}", v.id);
                }
            }
            let trees = out.values().filter(|r| r.ast.is_some()).count();
            let diags: usize = out.values().map(|r| r.diagnostics.len()).sum();
            format!("OK files={} trees={} diags={}", out.len(), trees, diags)
        }
    }
}

/// `harness C01-worker --seed S --tier T --mode M --shard k --of W [--from-stage s --from-idx i] [--single stage idx]`
pub fn worker_main(args: &[String]) -> i32 {
    let get = |k: &str| args.iter().position(|a| a == k).and_then(|i| args.get(i + 1)).cloned();
    let seed: u64 = get("--seed").and_then(|s| s.parse().ok()).unwrap_or(1);
    let tier = if get("--tier").as_deref() == Some("thorough") { Tier::Thorough } else { Tier::Quick };
    let mode = get("--mode").unwrap_or_else(|| "native".into());
    let shard: u64 = get("--shard").and_then(|s| s.parse().ok()).unwrap_or(0);
    let of: u64 = get("--of").and_then(|s| s.parse().ok()).unwrap_or(1);
    let from_stage = get("--from-stage");
    let from_idx: u64 = get("--from-idx").and_then(|s| s.parse().ok()).unwrap_or(0);
    let out = std::io::stdout();
    let run_one = |stage: &str, idx: u64| {
        if let Some((label, files)) = make_case(seed, tier, &mode, stage, idx) {
            let bytes: usize = files.iter().map(|f| f.1.len()).sum();
            {
                let mut o = out.lock();
                let _ = writeln!(o, "B {stage} {idx} {bytes} {}", label.replace(' ', "_"));
                let _ = o.flush();
            }
            let status = exec_case(&files);
            let mut o = out.lock();
            let _ = writeln!(o, "E {stage} {idx} {status}");
            let _ = o.flush();
        }
    };
    if let Some(pos) = args.iter().position(|a| a == "--single") {
        let stage = args.get(pos + 1).cloned().unwrap_or_default();
        let idx: u64 = args.get(pos + 2).and_then(|s| s.parse().ok()).unwrap_or(0);
        run_one(&stage, idx);
        return 0;
    }
    let mut started = from_stage.is_none();
    for sd in stages(tier, &mode) {
        let mut first = 0;
        if !started {
            if Some(sd.name.to_string()) == from_stage {
                started = true;
                first = from_idx;
            } else {
                continue;
            }
        }
        let mut idx = first;
        // shard by index
        while idx < sd.n {
            if idx % of == shard {
                run_one(sd.name, idx);
            }
            idx += 1;
        }
    }
    let mut o = out.lock();
    let _ = writeln!(o, "DONE");
    let _ = o.flush();
    0
}

// ---------------------------------------------------------------------------
// Parent

fn deadline_for(bytes: usize, mode: &str) -> Duration {
    let f = bytes as f64 / 65536.0;
    let base = 10.0 + 120.0 * f * f;
    let mult = match mode {
        "asan" => 12.0,
        "valgrind" => 60.0,
        "miri" => 2000.0,
        _ => 1.0,
    };
    Duration::from_secs_f64(base * mult)
}

#[derive(Default)]
struct Shared {
    inflight: Option<(String, u64, usize, Instant)>,
    done: bool,
    killed_for_timeout: bool,
}

struct Outcome {
    stats: Stats,
}

fn spawn_worker(exe: &str, wrapper: &[String], seed: u64, tier: Tier, mode: &str, shard: u64, of: u64, from: Option<(String, u64)>, stderr_path: &str) -> std::io::Result<Child> {
    let mut argv: Vec<String> = wrapper.to_vec();
    argv.push(exe.to_string());
    argv.extend(["C01-worker", "--seed", &seed.to_string(), "--tier", tier.name(), "--mode", mode, "--shard", &shard.to_string(), "--of", &of.to_string()].iter().map(|s| s.to_string()));
    if let Some((s, i)) = from {
        argv.extend(["--from-stage".to_string(), s, "--from-idx".to_string(), i.to_string()]);
    }
    let errf = std::fs::OpenOptions::new().create(true).append(true).open(stderr_path)?;
    let mut cmd = Command::new(&argv[0]);
    cmd.args(&argv[1..]).stdin(Stdio::null()).stdout(Stdio::piped()).stderr(errf);
    if mode == "asan" {
        cmd.env("ASAN_OPTIONS", "halt_on_error=1:abort_on_error=1:detect_leaks=1:allocator_may_return_null=1");
    }
    cmd.spawn()
}

/// Re-run a single case alone with a deadline. Returns: Ok(status line) | Err("timeout"|"died:<how>")
fn run_single(exe: &str, wrapper: &[String], seed: u64, tier: Tier, mode: &str, stage: &str, idx: u64, deadline: Duration) -> Result<String, String> {
    let mut argv: Vec<String> = wrapper.to_vec();
    argv.push(exe.to_string());
    argv.extend(["C01-worker", "--seed", &seed.to_string(), "--tier", tier.name(), "--mode", mode, "--single", stage, &idx.to_string()].iter().map(|s| s.to_string()));
    let mut child = Command::new(&argv[0]).args(&argv[1..]).stdin(Stdio::null()).stdout(Stdio::piped()).stderr(Stdio::null()).spawn().map_err(|e| format!("died:spawn {e}"))?;
    let stdout = child.stdout.take().unwrap();
    let (tx, rx) = std::sync::mpsc::channel();
    std::thread::spawn(move || {
        let mut last = None;
        for l in BufReader::new(stdout).lines().map_while(Result::ok) {
            if l.starts_with("E ") {
                last = Some(l);
            }
        }
        let _ = tx.send(last);
    });
    let t0 = Instant::now();
    loop {
        if let Ok(Some(st)) = child.try_wait() {
            let last = rx.recv_timeout(Duration::from_secs(5)).ok().flatten();
            return match last {
                Some(l) => Ok(l),
                None => Err(format!("died:{st}")),
            };
        }
        if t0.elapsed() > deadline {
            let _ = child.kill();
            let _ = child.wait();
            return Err("timeout".into());
        }
        std::thread::sleep(Duration::from_millis(50));
    }
}

fn drive(ctx: &Ctx, exe: &str, wrapper: &[String], mode: &str, workers: u64, wall_cap: Duration) -> Outcome {
    let merged = Arc::new(Mutex::new(Stats::default()));
    let t_start = Instant::now();
    let _ = std::fs::create_dir_all(format!("{}/work", out_dir()));
    std::thread::scope(|s| {
        for shard in 0..workers {
            let merged = merged.clone();
            let wrapper = wrapper.to_vec();
            s.spawn(move || {
                let mut st = Stats::default();
                let stderr_path = format!("{}/work/c01-{mode}-{}-{shard}.stderr", out_dir(), std::process::id());
                let _ = std::fs::remove_file(&stderr_path);
                let mut from: Option<(String, u64)> = None;
                let mut restarts = 0;
                'outer: loop {
                    let mut child = match spawn_worker(exe, &wrapper, ctx.seed, ctx.tier, mode, shard, workers, from.clone(), &stderr_path) {
                        Ok(c) => c,
                        Err(e) => {
                            st.harness_errors.push(format!("cannot spawn {mode} worker: {e}"));
                            break;
                        }
                    };
                    let stdout = child.stdout.take().unwrap();
                    let shared = Arc::new(Mutex::new(Shared::default()));
                    let sh2 = shared.clone();
                    let (tx, rx) = std::sync::mpsc::channel::<String>();
                    let reader = std::thread::spawn(move || {
                        for l in BufReader::new(stdout).lines().map_while(Result::ok) {
                            if tx.send(l).is_err() {
                                break;
                            }
                        }
                        sh2.lock().unwrap().done = true;
                    });
                    let mut finished_clean = false;
                    loop {
                        match rx.recv_timeout(Duration::from_millis(200)) {
                            Ok(l) => {
                                let mut it = l.splitn(4, ' ');
                                match it.next() {
                                    Some("B") => {
                                        let stage = it.next().unwrap_or("").to_string();
                                        let idx: u64 = it.next().and_then(|x| x.parse().ok()).unwrap_or(0);
                                        let rest = it.next().unwrap_or("");
                                        let bytes: usize = rest.split(' ').next().and_then(|x| x.parse().ok()).unwrap_or(0);
                                        let label = rest.split(' ').nth(1).unwrap_or("").to_string();
                                        st.inc(&format!("{mode}.class.{}", label.split(':').next().unwrap_or("")));
                                        if label.starts_with("size:") {
                                            st.inc(&format!("{mode}.{label}"));
                                        }
                                        st.add(&format!("{mode}.bytes"), bytes as u64);
                                        st.max("largest_case_bytes", bytes as u64);
                                        shared.lock().unwrap().inflight = Some((stage, idx, bytes, Instant::now()));
                                    }
                                    Some("E") => {
                                        let stage = it.next().unwrap_or("").to_string();
                                        let idx: u64 = it.next().and_then(|x| x.parse().ok()).unwrap_or(0);
                                        let status = it.next().unwrap_or("").to_string();
                                        let infl = shared.lock().unwrap().inflight.take();
                                        if let Some((_, _, bytes, t0)) = &infl {
                                            let ms = t0.elapsed().as_millis() as u64;
                                            st.max(&format!("{mode}.slowest_case_ms"), ms);
                                            if *bytes > 16_384 {
                                                st.max(&format!("{mode}.slowest_large_case_ms"), ms);
                                            }
                                        }
                                        record_status(ctx, mode, &stage, idx, &status, &mut st);
                                    }
                                    Some("DONE") => {
                                        finished_clean = true;
                                    }
                                    _ => {}
                                }
                            }
                            Err(std::sync::mpsc::RecvTimeoutError::Timeout) => {
                                // watchdog
                                let infl = shared.lock().unwrap().inflight.clone();
                                if let Some((stage, idx, bytes, t0)) = infl {
                                    if t0.elapsed() > deadline_for(bytes, mode) {
                                        let _ = child.kill();
                                        shared.lock().unwrap().killed_for_timeout = true;
                                        let _ = (stage, idx);
                                    }
                                }
                                if t_start.elapsed() > wall_cap {
                                    let _ = child.kill();
                                    st.stopped_by.insert(format!("{mode}.wall_cap"), format!("{mode} stage stopped by its wall cap {:?}", wall_cap));
                                    let _ = child.wait();
                                    let _ = reader.join();
                                    break 'outer;
                                }
                            }
                            Err(std::sync::mpsc::RecvTimeoutError::Disconnected) => break,
                        }
                    }
                    let status = child.wait();
                    let _ = reader.join();
                    if finished_clean {
                        break;
                    }
                    // the worker died or was killed with a case in flight
                    let (infl, timed_out) = {
                        let sh = shared.lock().unwrap();
                        (sh.inflight.clone(), sh.killed_for_timeout)
                    };
                    let Some((stage, idx, bytes, _)) = infl else {
                        st.inconclusive += 1;
                        st.inc(&format!("{mode}.worker_died_between_cases(inconclusive)"));
                        st.harness_errors.push(format!("{mode} worker {shard} exited ({status:?}) with no case in flight"));
                        break;
                    };
                    st.case(hash_str(&format!("{stage}/{idx}")), true);
                    let files = make_case(ctx.seed, ctx.tier, mode, &stage, idx).map(|c| c.1).unwrap_or_default();
                    let detail = |extra: &str| {
                        json!({"mode": mode, "stage": stage, "case": idx, "how": extra,
                               "files": files.iter().map(|f| json!({"id": f.0, "bytes": f.1.len(), "content": if f.1.len() <= 4096 { f.1.clone() } else { format!("{}… ({} bytes, regenerate with --replay)", f.1.chars().take(1024).collect::<String>(), f.1.len()) }})).collect::<Vec<_>>() })
                    };
                    if timed_out {
                        // slow is not hung: re-run alone with 5x the budget
                        st.inc(&format!("{mode}.first_deadline_expiries"));
                        match run_single(exe, &wrapper, ctx.seed, ctx.tier, mode, &stage, idx, deadline_for(bytes, mode) * 5) {
                            Ok(l) => {
                                st.inc(&format!("{mode}.slow_but_finished_on_rerun"));
                                let status = l.splitn(4, ' ').nth(3).unwrap_or("").to_string();
                                record_status(ctx, mode, &stage, idx, &status, &mut st);
                            }
                            Err(e) if e == "timeout" => {
                                st.violate(&format!("{mode}:{stage}"), idx, "hang", format!("no return within {:?} (second attempt, alone) on a {} byte case", deadline_for(bytes, mode) * 5, bytes), detail("hang"));
                            }
                            Err(e) => {
                                st.violate(&format!("{mode}:{stage}"), idx, "abort", format!("worker process {e} on re-run"), detail(&e));
                            }
                        }
                    } else {
                        // died: confirm alone
                        let how = format!("{status:?}");
                        match run_single(exe, &wrapper, ctx.seed, ctx.tier, mode, &stage, idx, deadline_for(bytes, mode) * 5) {
                            Ok(l) => {
                                st.inconclusive += 1;
                                st.inc(&format!("{mode}.death_not_reproduced(inconclusive)"));
                                let status = l.splitn(4, ' ').nth(3).unwrap_or("").to_string();
                                record_status(ctx, mode, &stage, idx, &status, &mut st);
                            }
                            Err(e) => {
                                let tail = std::fs::read_to_string(&stderr_path).unwrap_or_default();
                                let tail: String = tail.chars().rev().take(3000).collect::<String>().chars().rev().collect();
                                let sig = if tail.contains("AddressSanitizer") || tail.contains("LeakSanitizer") {
                                    "sanitizer-report"
                                } else if tail.contains("== Invalid") || tail.contains("uninitialised") || tail.contains("ERROR SUMMARY") && !tail.contains("ERROR SUMMARY: 0 errors") {
                                    "memcheck-report"
                                } else {
                                    "abort"
                                };
                                let mut d = detail(&format!("{how}; re-run: {e}"));
                                d["stderr_tail"] = json!(tail);
                                st.violate(&format!("{mode}:{stage}"), idx, sig, format!("worker process died ({how}) while running this case, reproduced alone ({e})"), d);
                            }
                        }
                    }
                    restarts += 1;
                    if restarts > 20 {
                        st.harness_errors.push(format!("{mode} worker {shard}: too many restarts"));
                        break;
                    }
                    from = Some((stage, idx + 1));
                }
                let _ = std::fs::remove_file(&stderr_path);
                merged.lock().unwrap().merge(st);
            });
        }
    });
    let stats = std::mem::take(&mut *merged.lock().unwrap());
    Outcome { stats }
}

fn record_status(ctx: &Ctx, mode: &str, stage: &str, idx: u64, status: &str, st: &mut Stats) {
    let key = hash_str(&format!("{stage}/{idx}"));
    st.case(key, true);
    st.inc(&format!("{mode}.cases"));
    if let Some(rest) = status.strip_prefix("OK ") {
        let mut files = 0;
        let mut trees = 0;
        let mut diags = 0;
        for kv in rest.split(' ') {
            if let Some((k, v)) = kv.split_once('=') {
                let v: u64 = v.parse().unwrap_or(0);
                match k {
                    "files" => files = v,
                    "trees" => trees = v,
                    "diags" => diags = v,
                    _ => {}
                }
            }
        }
        st.add("results_returned", files);
        st.add("results_with_tree", trees);
        st.add("results_without_tree", files - trees.min(files));
        st.inc(&format!("diagnostics_per_case.{}", match diags {
            0 => "0",
            1 => "1",
            2..=3 => "2-3",
            4..=9 => "4-9",
            10..=99 => "10-99",
            _ => "100+",
        }));
        st.inc(&format!("files_per_case.{files}"));
        if st.want_sample() && diags >= 2 && stage != "size" {
            if let Some((label, files)) = make_case(ctx.seed, ctx.tier, mode, stage, idx) {
                if files.iter().all(|f| f.1.len() < 400) {
                    st.sample(json!({"stage": stage, "case": idx, "label": label, "files": files.iter().map(|f| json!({"id": f.0, "content": f.1})).collect::<Vec<_>>(), "status": status}));
                }
            }
        }
        return;
    }
    let files = make_case(ctx.seed, ctx.tier, mode, stage, idx).map(|c| c.1).unwrap_or_default();
    let detail = json!({"mode": mode, "stage": stage, "case": idx, "status": status,
        "files": files.iter().map(|f| json!({"id": f.0, "content": if f.1.len() <= 8192 { f.1.clone() } else { format!("({} bytes; regenerate with --replay)", f.1.len()) }})).collect::<Vec<_>>()});
    let (sig, msg) = if status.starts_with("PANIC") {
        ("panic", format!("library panicked: {status}"))
    } else if status.starts_with("KEYS") {
        ("result-keys", format!("result map does not hold exactly the ids in the parser: {status}"))
    } else if status.starts_with("IDTAG") {
        ("result-id-tag", format!("a result is tagged with another id than its key: {status}"))
    } else {
        ("unknown-status", format!("worker reported {status}"))
    };
    st.violate(&format!("{mode}:{stage}"), idx, sig, msg, detail);
}

fn build_asan() -> Result<String, String> {
    let out = Command::new("bash")
        .arg("-c")
        .arg("cd /verif/harness && CARGO_NET_OFFLINE=true RUSTFLAGS='-Zsanitizer=address -Cforce-frame-pointers=yes' cargo +nightly build --release --offline --target x86_64-unknown-linux-gnu --target-dir /verif/target/asan 2>&1 | tail -5")
        .output()
        .map_err(|e| e.to_string())?;
    let exe = "/verif/target/asan/x86_64-unknown-linux-gnu/release/harness";
    if std::path::Path::new(exe).exists() && out.status.success() {
        Ok(exe.to_string())
    } else {
        Err(String::from_utf8_lossy(&out.stdout).to_string())
    }
}

pub fn run(ctx: &Ctx) -> i32 {
    let exe = std::env::current_exe().map(|p| p.to_string_lossy().to_string()).unwrap_or_else(|_| "/verif/target/release/harness".into());
    let mut stats = Stats::default();
    let mut tools: BTreeMap<String, String> = BTreeMap::new();

    if let Some((stage, idx)) = &ctx.replay {
        // stage is "<mode>:<stage>"
        let (_mode, stg) = stage.split_once(':').unwrap_or(("native", stage.as_str()));
        match make_case(ctx.seed, ctx.tier, _mode, stg, *idx) {
            Some((label, files)) => {
                println!("replaying {stg} case {idx} ({label}), {} file(s)", files.len());
                for f in &files {
                    println!("--- id {} ({} bytes)\n{}", f.0, f.1.len(), f.1.chars().take(2000).collect::<String>());
                }
                match run_single(&exe, &[], ctx.seed, ctx.tier, _mode, stg, *idx, Duration::from_secs(1200)) {
                    Ok(l) => {
                        println!("{l}");
                        let status = l.splitn(4, ' ').nth(3).unwrap_or("").to_string();
                        record_status(ctx, "native", stg, *idx, &status, &mut stats);
                    }
                    Err(e) => {
                        stats.case(1, true);
                        stats.violate(stage, *idx, if e == "timeout" { "hang" } else { "abort" }, format!("worker {e}"), json!({}));
                    }
                }
            }
            None => stats.harness_errors.push("replay case does not exist".into()),
        }
    } else {
        let workers = ctx.threads as u64;
        // Miri is single-threaded and very slow (~3 min per parsed file): start it first, collect it last
        let miri_handle = if ctx.tier == Tier::Thorough {
            let (seed, tier) = (ctx.seed, ctx.tier);
            Some(std::thread::spawn(move || run_miri(seed, tier)))
        } else {
            None
        };
        let o = drive(ctx, &exe, &[], "native", workers, Duration::from_secs(ctx.tier.pick(600, 3600)));
        stats.merge(o.stats);
        tools.insert("native".into(), "ran".into());
        if ctx.tier == Tier::Thorough {
            // ASan
            match build_asan() {
                Ok(asan_exe) => {
                    let o = drive(ctx, &asan_exe, &[], "asan", workers, Duration::from_secs(1500));
                    stats.merge(o.stats);
                    tools.insert("asan".into(), "ran".into());
                }
                Err(e) => {
                    stats.inconclusive += 1;
                    tools.insert("asan".into(), format!("inconclusive: build failed: {}", e.chars().take(300).collect::<String>()));
                }
            }
            // valgrind memcheck on the release harness
            if Command::new("valgrind").arg("--version").output().map(|o| o.status.success()).unwrap_or(false) {
                let wrapper: Vec<String> = ["valgrind", "--quiet", "--error-exitcode=97", "--leak-check=no", "--num-callers=20"].iter().map(|s| s.to_string()).collect();
                let o = drive(ctx, &exe, &wrapper, "valgrind", workers, Duration::from_secs(1500));
                stats.merge(o.stats);
                tools.insert("valgrind".into(), "ran".into());
            } else {
                stats.inconclusive += 1;
                tools.insert("valgrind".into(), "inconclusive: valgrind not available".into());
            }
            // Miri micro-slice (best effort)
            match miri_handle.map(|h| h.join().unwrap_or_else(|_| Err((false, "miri thread panicked".to_string())))).unwrap_or_else(|| Err((false, "not started".to_string()))) {
                Ok((n, msg)) => {
                    stats.add("miri.cases", n);
                    tools.insert("miri".into(), msg);
                }
                Err((violation, msg)) => {
                    if violation {
                        stats.violate("miri:slice", 0, "miri-report", msg.chars().take(600).collect(), json!({"output": msg}));
                        stats.case(hash_str("miri"), true);
                    } else {
                        stats.inconclusive += 1;
                    }
                    tools.insert("miri".into(), format!("inconclusive/failed: {}", msg.chars().take(300).collect::<String>()));
                }
            }
        }
    }
    let mut extra = serde_json::Map::new();
    extra.insert("tools".into(), json!(tools));
    extra.insert("hang_rule".into(), json!("deadline = 10 s + 120 s x (bytes / 64 KiB)^2 per case (x12 ASan, x60 memcheck); on expiry the case is re-run alone with 5x that; only a second expiry is a hang"));
    finish(
        ctx,
        stats,
        Meta {
            rule: "cases = sets of 1-6 files (ids drawn from a small pool so that replacement happens) of: character soups (ASCII punctuation, all Unicode whitespace, multi-byte letters, CJK, emoji, combining marks, BOM, NUL/control characters, Unicode digits), token soups over the full vocabulary incl. doc comments and broken lexemes, mutated generated documents, systematic injection of 24 snippets at every character position of generated documents, size stress to 64 KiB in 10 shapes; run in worker sub-processes (panic -> caught and reported, abort/signal -> attributed to the in-flight case, hang -> two-stage watchdog); every case counted once per (stage, index), all non-trivial".into(),
            assumptions: vec![
                "slow is not hung: the library is quadratic in file size (measured), so the watchdog scales with bytes^2 and needs two expiries".into(),
                "sanitizer stages reuse the same deterministic workload at smaller counts; a tool that cannot be built or started makes its stage inconclusive, never a violation".into(),
                "nesting deeper than 64 is out of scope (property statement)".into(),
            ],
            exhaustive: false,
            extra,
            min_nontrivial: 100,
        },
    )
}

fn run_miri(seed: u64, tier: Tier) -> Result<(u64, String), (bool, String)> {
    // one `cargo miri run` executing the worker in miri mode (a handful of tiny inputs)
    let cmd = format!(
        "cd /verif/harness && CARGO_NET_OFFLINE=true MIRIFLAGS='-Zmiri-disable-isolation' timeout 3000 cargo +nightly miri run --offline --target-dir /verif/target/miri -- C01-worker --seed {} --tier {} --mode miri --shard 0 --of 1 2>&1 | tail -40",
        seed,
        tier.name()
    );
    let out = Command::new("bash").arg("-c").arg(&cmd).output().map_err(|e| (false, e.to_string()))?;
    let txt = String::from_utf8_lossy(&out.stdout).to_string();
    let n = txt.lines().filter(|l| l.starts_with("E ")).count() as u64;
    if txt.contains("Undefined Behavior") || txt.contains("error: unsupported operation") && false {
        return Err((true, txt));
    }
    if txt.lines().any(|l| l.starts_with("E ") && !l.contains(" OK ")) {
        return Err((true, txt));
    }
    if txt.lines().any(|l| l == "DONE") {
        Ok((n, format!("ran: {n} cases under Miri, no undefined behaviour reported")))
    } else {
        Err((false, txt))
    }
}
