//! Document model (what the generators produce) and the position-free
//! projection `P*` that both the model and the library's AST are mapped to.

use aidl_parser::ast;
use std::collections::BTreeMap;

#[derive(Clone, Debug, PartialEq)]
pub enum Ty {
    Void,
    Prim(String),
    Str,
    CharSeq,
    Array(Box<Ty>),
    List(Option<Box<Ty>>),
    Map(Option<Box<(Ty, Ty)>>),
    Custom(Vec<String>),
}

impl Ty {
    pub fn depth(&self) -> usize {
        match self {
            Ty::Array(t) => 1 + t.depth(),
            Ty::List(Some(t)) => 1 + t.depth(),
            Ty::Map(Some(kv)) => 1 + kv.0.depth().max(kv.1.depth()),
            _ => 0,
        }
    }
    pub fn custom(name: &str) -> Ty {
        Ty::Custom(name.split('.').map(|s| s.to_string()).collect())
    }
    /// source text with single spaces where needed
    pub fn text(&self) -> String {
        match self {
            Ty::Void => "void".into(),
            Ty::Prim(p) => p.clone(),
            Ty::Str => "String".into(),
            Ty::CharSeq => "CharSequence".into(),
            Ty::Array(t) => format!("{}[]", t.text()),
            Ty::List(None) => "List".into(),
            Ty::List(Some(t)) => format!("List<{}>", t.text()),
            Ty::Map(None) => "Map".into(),
            Ty::Map(Some(kv)) => format!("Map<{}, {}>", kv.0.text(), kv.1.text()),
            Ty::Custom(segs) => segs.join("."),
        }
    }
}

#[derive(Clone, Debug, PartialEq)]
pub struct Ann {
    /// without the '@'
    pub name: String,
    pub params: Option<Vec<(String, Option<String>)>>,
    pub trailing_comma: bool,
}

#[derive(Clone, Debug, PartialEq)]
pub enum Val {
    Scalar(String),
    Empty,
    /// `{ first+ (, rest)* ,? }`
    Braces { first: Vec<Val>, rest: Vec<Val>, trailing_comma: bool },
    Dotted(String, String),
}

impl Val {
    pub fn normal_form(&self) -> String {
        match self {
            Val::Scalar(s) => s.clone(),
            Val::Empty => "{}".into(),
            Val::Braces { .. } => "{...}".into(),
            Val::Dotted(a, b) => format!("{a}.{b}"),
        }
    }
}

/// What stands in front of a documentable construct (only used by the C18 generator; None = layout decides)
#[derive(Clone, Debug, PartialEq, Default)]
pub struct Pre {
    /// exact trivia text to put in front of the construct's first token (forced gap)
    pub forced: Option<String>,
}

#[derive(Clone, Debug, PartialEq)]
pub struct Arg {
    pub dir: Option<String>,
    pub anns: Vec<Ann>,
    pub ty: Ty,
    pub name: Option<String>,
    pub pre: Pre,
}

#[derive(Clone, Debug, PartialEq)]
pub enum Member {
    Method { anns: Vec<Ann>, oneway: bool, ret: Ty, name: String, args: Vec<Arg>, args_trailing_comma: bool, code: Option<String>, pre: Pre },
    Const { anns: Vec<Ann>, ty: Ty, name: String, value: Val, pre: Pre },
    Field { anns: Vec<Ann>, ty: Ty, name: String, value: Option<Val>, pre: Pre },
    EnumElem { anns: Vec<Ann>, name: String, value: Option<String>, pre: Pre },
}

impl Member {
    pub fn name(&self) -> &str {
        match self {
            Member::Method { name, .. } | Member::Const { name, .. } | Member::Field { name, .. } | Member::EnumElem { name, .. } => name,
        }
    }
    pub fn pre_mut(&mut self) -> &mut Pre {
        match self {
            Member::Method { pre, .. } | Member::Const { pre, .. } | Member::Field { pre, .. } | Member::EnumElem { pre, .. } => pre,
        }
    }
}

#[derive(Clone, Copy, Debug, PartialEq, Eq, Hash, PartialOrd, Ord)]
pub enum ItemKind {
    Interface,
    Parcelable,
    Enum,
}

impl ItemKind {
    pub fn keyword(self) -> &'static str {
        match self {
            ItemKind::Interface => "interface",
            ItemKind::Parcelable => "parcelable",
            ItemKind::Enum => "enum",
        }
    }
}

#[derive(Clone, Debug, PartialEq)]
pub struct Item {
    pub kind: ItemKind,
    pub anns: Vec<Ann>,
    pub oneway: bool,
    pub name: String,
    pub members: Vec<Member>,
    /// enum only: trailing comma after the last element
    pub trailing_comma: bool,
    pub pre: Pre,
}

#[derive(Clone, Debug, PartialEq)]
pub struct Declared {
    pub anns: Vec<Ann>,
    pub segs: Vec<String>,
}

#[derive(Clone, Debug, PartialEq)]
pub struct Doc {
    pub package: Vec<String>,
    pub imports: Vec<Vec<String>>,
    pub declared: Vec<Declared>,
    pub item: Item,
}

impl Doc {
    pub fn key(&self) -> String {
        format!("{}.{}", self.package.join("."), self.item.name)
    }
}

// ---------------------------------------------------------------------------
// Position-free projection

#[derive(Clone, Debug, PartialEq, Eq, PartialOrd, Ord)]
pub struct PAnn {
    pub name: String,
    pub kv: BTreeMap<String, Option<String>>,
}

#[derive(Clone, Debug, PartialEq, Eq, PartialOrd, Ord)]
pub struct PTy {
    /// "void" "prim" "string" "charseq" "array" "list" "map" "custom"
    pub tag: &'static str,
    pub name: String,
    pub children: Vec<PTy>,
}

#[derive(Clone, Debug, PartialEq, Eq, PartialOrd, Ord)]
pub struct PArg {
    pub dir: &'static str,
    pub anns: Vec<PAnn>,
    pub ty: PTy,
    pub name: Option<String>,
}

#[derive(Clone, Debug, PartialEq, Eq, PartialOrd, Ord)]
pub enum PMember {
    Method { anns: Vec<PAnn>, oneway: bool, ret: PTy, name: String, args: Vec<PArg>, code: Option<u32> },
    Const { anns: Vec<PAnn>, ty: PTy, name: String, value: String },
    Field { anns: Vec<PAnn>, ty: PTy, name: String, value: Option<String> },
    EnumElem { name: String, value: Option<String> },
}

#[derive(Clone, Debug, PartialEq, Eq)]
pub struct PDoc {
    pub package: String,
    pub imports: Vec<String>,
    pub declared: Vec<String>,
    pub kind: &'static str,
    pub oneway: bool,
    pub name: String,
    pub anns: Vec<PAnn>,
    pub members: Vec<PMember>,
}

fn p_ann_model(a: &Ann) -> PAnn {
    let mut kv = BTreeMap::new();
    if let Some(ps) = &a.params {
        for (k, v) in ps {
            kv.insert(k.clone(), v.clone());
        }
    }
    PAnn { name: format!("@{}", a.name), kv }
}

pub fn p_ty_model(t: &Ty) -> PTy {
    match t {
        Ty::Void => PTy { tag: "void", name: "void".into(), children: vec![] },
        Ty::Prim(p) => PTy { tag: "prim", name: p.clone(), children: vec![] },
        Ty::Str => PTy { tag: "string", name: "String".into(), children: vec![] },
        Ty::CharSeq => PTy { tag: "charseq", name: "CharSequence".into(), children: vec![] },
        Ty::Array(e) => PTy { tag: "array", name: "Array".into(), children: vec![p_ty_model(e)] },
        Ty::List(e) => PTy { tag: "list", name: "List".into(), children: e.iter().map(|x| p_ty_model(x)).collect() },
        Ty::Map(kv) => PTy {
            tag: "map",
            name: "Map".into(),
            children: kv.iter().flat_map(|x| vec![p_ty_model(&x.0), p_ty_model(&x.1)]).collect(),
        },
        Ty::Custom(segs) => PTy { tag: "custom", name: segs.join("."), children: vec![] },
    }
}

pub fn p_member_model(m: &Member, iface_oneway: bool) -> PMember {
    match m {
        Member::Method { anns, oneway, ret, name, args, code, .. } => PMember::Method {
            anns: anns.iter().map(p_ann_model).collect(),
            oneway: *oneway || iface_oneway,
            ret: p_ty_model(ret),
            name: name.clone(),
            args: args
                .iter()
                .map(|a| PArg {
                    dir: match a.dir.as_deref() {
                        Some("in") => "in",
                        Some("out") => "out",
                        Some("inout") => "inout",
                        _ => "",
                    },
                    anns: a.anns.iter().map(p_ann_model).collect(),
                    ty: p_ty_model(&a.ty),
                    name: a.name.clone(),
                })
                .collect(),
            code: code.as_ref().map(|c| c.parse::<u32>().expect("generated code fits u32")),
        },
        Member::Const { anns, ty, name, value, .. } => PMember::Const {
            anns: anns.iter().map(p_ann_model).collect(),
            ty: p_ty_model(ty),
            name: name.clone(),
            value: value.normal_form(),
        },
        Member::Field { anns, ty, name, value, .. } => PMember::Field {
            anns: anns.iter().map(p_ann_model).collect(),
            ty: p_ty_model(ty),
            name: name.clone(),
            value: value.as_ref().map(|v| v.normal_form()),
        },
        Member::EnumElem { name, value, .. } => PMember::EnumElem { name: name.clone(), value: value.clone() },
    }
}

/// Projection of the model. `propagate`: method oneway = explicit || interface oneway (post-validation view).
pub fn p_doc_model(d: &Doc, propagate: bool) -> PDoc {
    PDoc {
        package: d.package.join("."),
        imports: d.imports.iter().map(|i| i.join(".")).collect(),
        declared: d.declared.iter().map(|i| i.segs.join(".")).collect(),
        kind: d.item.kind.keyword(),
        oneway: d.item.oneway,
        name: d.item.name.clone(),
        anns: d.item.anns.iter().map(p_ann_model).collect(),
        members: d.item.members.iter().map(|m| p_member_model(m, propagate && d.item.oneway)).collect(),
    }
}

fn p_ann_ast(a: &ast::Annotation) -> PAnn {
    PAnn { name: a.name.clone(), kv: a.key_values.iter().map(|(k, v)| (k.clone(), v.clone())).collect() }
}

pub fn p_ty_ast(t: &ast::Type) -> PTy {
    let tag = match t.kind {
        ast::TypeKind::Primitive => "prim",
        ast::TypeKind::Void => "void",
        ast::TypeKind::Array => "array",
        ast::TypeKind::Map => "map",
        ast::TypeKind::List => "list",
        ast::TypeKind::String => "string",
        ast::TypeKind::CharSequence => "charseq",
        ast::TypeKind::AndroidType(_) | ast::TypeKind::ResolvedItem(..) | ast::TypeKind::Unresolved => "custom",
    };
    PTy { tag, name: t.name.clone(), children: t.generic_types.iter().map(p_ty_ast).collect() }
}

fn p_const_ast(c: &ast::Const) -> PMember {
    PMember::Const {
        anns: c.annotations.iter().map(p_ann_ast).collect(),
        ty: p_ty_ast(&c.const_type),
        name: c.name.clone(),
        value: c.value.clone(),
    }
}

pub fn p_method_ast(m: &ast::Method) -> PMember {
    PMember::Method {
        anns: m.annotations.iter().map(p_ann_ast).collect(),
        oneway: m.oneway,
        ret: p_ty_ast(&m.return_type),
        name: m.name.clone(),
        args: m
            .args
            .iter()
            .map(|a| PArg {
                dir: match a.direction {
                    ast::Direction::In(_) => "in",
                    ast::Direction::Out(_) => "out",
                    ast::Direction::InOut(_) => "inout",
                    ast::Direction::Unspecified => "",
                },
                anns: a.annotations.iter().map(p_ann_ast).collect(),
                ty: p_ty_ast(&a.arg_type),
                name: a.name.clone(),
            })
            .collect(),
        code: m.transact_code,
    }
}

pub fn p_members_ast(item: &ast::Item) -> Vec<PMember> {
    match item {
        ast::Item::Interface(i) => i
            .elements
            .iter()
            .map(|e| match e {
                ast::InterfaceElement::Method(m) => p_method_ast(m),
                ast::InterfaceElement::Const(c) => p_const_ast(c),
            })
            .collect(),
        ast::Item::Parcelable(p) => p
            .elements
            .iter()
            .map(|e| match e {
                ast::ParcelableElement::Field(f) => PMember::Field {
                    anns: f.annotations.iter().map(p_ann_ast).collect(),
                    ty: p_ty_ast(&f.field_type),
                    name: f.name.clone(),
                    value: f.value.clone(),
                },
                ast::ParcelableElement::Const(c) => p_const_ast(c),
            })
            .collect(),
        ast::Item::Enum(e) => e.elements.iter().map(|el| PMember::EnumElem { name: el.name.clone(), value: el.value.clone() }).collect(),
    }
}

pub fn p_doc_ast(a: &ast::Aidl) -> PDoc {
    let (kind, oneway, name, anns) = match &a.item {
        ast::Item::Interface(i) => ("interface", i.oneway, i.name.clone(), &i.annotations),
        ast::Item::Parcelable(p) => ("parcelable", false, p.name.clone(), &p.annotations),
        ast::Item::Enum(e) => ("enum", false, e.name.clone(), &e.annotations),
    };
    PDoc {
        package: a.package.name.clone(),
        imports: a.imports.iter().map(|i| i.get_qualified_name()).collect(),
        declared: a.declared_parcelables.iter().map(|i| i.get_qualified_name()).collect(),
        kind,
        oneway,
        name,
        anns: anns.iter().map(p_ann_ast).collect(),
        members: p_members_ast(&a.item),
    }
}
