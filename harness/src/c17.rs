//! C17 — an item's qualified name is the key that references to it resolve to.

use crate::libx;
use crate::model::*;
use crate::proj::{self, ProjCfg};
use crate::prng::hash_str;
use crate::runner::*;
use aidl_parser::ast;
use aidl_parser::symbol::Symbol;
use aidl_parser::traverse::{self, SymbolFilter};
use serde_json::json;
use std::collections::HashMap;
use std::time::Duration;

fn check_file(doc: &Doc, a: &ast::Aidl, item_qnames: &HashMap<String, String>, st: &mut Stats) -> Vec<String> {
    let mut p = Vec::new();
    let key = format!("{}.{}", doc.package.join("."), doc.item.name);
    if a.get_key() != key {
        p.push(format!("get_key() = {:?}, expected {key:?}", a.get_key()));
    }
    let mut member_i = 0usize;
    let mut arg_iter: Vec<Option<String>> = Vec::new();
    let mut arg_i = 0usize;
    let mut import_i = 0usize;
    traverse::walk_symbols(a, SymbolFilter::All, |s| {
        let q = s.get_qualified_name();
        let n = s.get_name();
        match &s {
            Symbol::Package(_) => {
                st.inc("symbols.package");
                let want = doc.package.join(".");
                if q.as_deref() != Some(want.as_str()) || n.as_deref() != Some(want.as_str()) {
                    p.push(format!("package symbol: name {n:?} / qualified {q:?}, expected {want:?}"));
                }
            }
            Symbol::Import(_) => {
                st.inc("symbols.import");
                if let Some(want) = doc.imports.get(import_i).map(|i| i.join(".")) {
                    if q.as_deref() != Some(want.as_str()) {
                        p.push(format!("import symbol: qualified {q:?}, expected {want:?}"));
                    }
                }
                import_i += 1;
            }
            Symbol::Interface(..) | Symbol::Parcelable(..) | Symbol::Enum(..) => {
                st.inc(&format!("symbols.item.{}", doc.item.kind.keyword()));
                st.inc(&format!("item.package_depth.{}", doc.package.len()));
                if q.as_deref() != Some(key.as_str()) {
                    p.push(format!("{} item symbol: qualified name {q:?}, expected {key:?} (= the key the file is registered under)", doc.item.kind.keyword()));
                }
                if n.as_deref() != Some(doc.item.name.as_str()) {
                    p.push(format!("item symbol: name {n:?}, expected {:?}", doc.item.name));
                }
            }
            Symbol::Method(..) | Symbol::Const(..) | Symbol::Field(..) | Symbol::EnumElement(..) => {
                st.inc("symbols.member");
                if let Some(m) = doc.item.members.get(member_i) {
                    let want = format!("{}::{}", doc.item.name, m.name());
                    if q.as_deref() != Some(want.as_str()) {
                        p.push(format!("member symbol: qualified {q:?}, expected {want:?}"));
                    }
                    if n.as_deref() != Some(m.name()) {
                        p.push(format!("member symbol: name {n:?}, expected {:?}", m.name()));
                    }
                    if let Member::Method { args, .. } = m {
                        arg_iter = args.iter().map(|a| a.name.clone()).collect();
                        arg_i = 0;
                    }
                } else {
                    p.push("more member symbols than members in the document".into());
                }
                member_i += 1;
            }
            Symbol::Arg(..) => {
                st.inc("symbols.arg");
                let want = arg_iter.get(arg_i).cloned().flatten();
                if n != want {
                    p.push(format!("argument symbol: name {n:?}, expected {want:?}"));
                }
                arg_i += 1;
            }
            Symbol::Type(t) => {
                if let ast::TypeKind::ResolvedItem(k, kind) = &t.kind {
                    st.inc(&format!("type_symbols.resolved.{kind:?}"));
                    if q.as_deref() != Some(k.as_str()) {
                        p.push(format!("type symbol `{}` resolved to {k:?} reports qualified name {q:?}", t.name));
                    }
                    if let Some(item_q) = item_qnames.get(k) {
                        st.inc("type_symbol_vs_item_symbol_compared");
                        if q.as_deref() != Some(item_q.as_str()) {
                            p.push(format!("type symbol `{}` resolves to the item registered under {k:?} but reports qualified name {q:?} while that item's symbol reports {item_q:?}", t.name));
                        }
                    }
                } else {
                    st.inc("type_symbols.other");
                }
            }
        }
    });
    if member_i != doc.item.members.len() {
        p.push(format!("{member_i} member symbols visited, the document has {}", doc.item.members.len()));
    }
    p
}

pub fn run(ctx: &Ctx) -> i32 {
    let n = ctx.tier.pick(5_000u64, 120_000);
    let stats = par_cases(ctx, "projects", n, Duration::from_secs(ctx.tier.pick(80, 900)), |i, rng, st| {
        let cfg = ProjCfg { allow_collisions: false, max_type_depth: 3, broken_files: false, ..ProjCfg::default() };
        let pr = proj::project(rng, &cfg);
        let mut pairs = pr.as_pairs();
        // one probe file per item: imports its qualified name and refers to it; the reference must resolve to
        // that item with the item's kind, i.e. the file really is registered under package.Name
        for (k, f) in pr.files.iter().enumerate() {
            let q = f.doc.key();
            let simple = q.rsplit('.').next().unwrap_or("X");
            // the second field goes through the simple name while a forward declaration of that name exists too: the import wins
            pairs.push((format!("zz_probe{k}"), format!("package zz.probe; import {q}; parcelable {simple}; parcelable Probe{k} {{ {q} f; {simple} g; }}")));
        }
        // ... and one probe per item that imports EVERY item of the project and refers to this one by its full
        // name: the reference must resolve to an import that designates it (equal to it, or ending in '.'+name)
        let all_imports: String = pr.files.iter().map(|f| format!("import {}; ", f.doc.key())).collect();
        for (k, f) in pr.files.iter().enumerate() {
            let q = f.doc.key();
            // ... followed by a reference to every other item by its full name (several references in one file)
            let others: String = pr
                .files
                .iter()
                .enumerate()
                .map(|(j, g)| {
                    let kq = g.doc.key();
                    format!("{kq} o{j}; Map<{kq}, {kq}> mk{j}; List<{kq}> li{j}; {kq}[] ar{j}; Map<String, List<{kq}[]>> deep{j}; ")
                })
                .collect();
            pairs.push((format!("zz_probe_all{k}"), format!("package zz.probe; {all_imports}parcelable ProbeAll{k} {{ {q} f; {others}}}")));
        }
        let key = hash_str(&pairs.iter().map(|f| f.1.clone()).collect::<Vec<_>>().join("\u{1}"));
        let res = match libx::parse_project(&pairs) {
            Ok(r) => r,
            Err(p) => {
                st.case(key, true);
                st.violate("projects", i, "panic", format!("library panicked: {p}"), json!({"files": pairs}));
                return;
            }
        };
        // qualified names the item symbols report, by key
        let mut item_q: HashMap<String, String> = HashMap::new();
        for r in res.valid.values() {
            if let Some(a) = &r.ast {
                if let Some(s) = traverse::find_symbol(a, SymbolFilter::ItemsOnly, |_| true) {
                    if let Some(q) = s.get_qualified_name() {
                        item_q.insert(a.get_key(), q);
                    }
                }
            }
        }
        st.case(key, true);
        let mut problems = Vec::new();
        for f in &pr.files {
            if let Some(a) = res.valid.get(&f.id).and_then(|r| r.ast.as_ref()) {
                let r = crate::runner::lib(|| check_file(&f.doc, a, &item_q, st));
                match r {
                    Ok(p) => problems.extend(p.into_iter().map(|x| format!("{}: {x}", f.id))),
                    Err(e) => problems.push(format!("panic: {e}")),
                }
            } else {
                problems.push(format!("{}: generated well-formed file has no tree", f.id));
            }
        }
        for (k, f) in pr.files.iter().enumerate() {
            let q = f.doc.key();
            let want = match f.doc.item.kind {
                ItemKind::Interface => ast::ResolvedItemKind::Interface,
                ItemKind::Parcelable => ast::ResolvedItemKind::Parcelable,
                ItemKind::Enum => ast::ResolvedItemKind::Enum,
            };
            if let Some(a) = res.valid.get(&format!("zz_probe{k}")).and_then(|r| r.ast.as_ref()) {
                if let ast::Item::Parcelable(p) = &a.item {
                    if let Some(ast::ParcelableElement::Field(fl)) = p.elements.first() {
                        st.inc("registration_probes");
                        if fl.field_type.kind != ast::TypeKind::ResolvedItem(q.clone(), want.clone()) {
                            problems.push(format!("{}: a reference to `{q}` (imported) resolves to {:?}: the file is not registered under its item's qualified name with its kind {:?}", f.id, fl.field_type.kind, want));
                        }
                        if let Some(ast::ParcelableElement::Field(g)) = p.elements.get(1) {
                            if g.field_type.kind != ast::TypeKind::ResolvedItem(q.clone(), want.clone()) {
                                problems.push(format!("{}: a reference by simple name to the imported `{q}` (a forward declaration of the same name exists) resolves to {:?}: not registered / not resolved through the import", f.id, g.field_type.kind));
                            }
                        }
                    }
                }
            }
        }
        for (k, f) in pr.files.iter().enumerate() {
            let q = f.doc.key();
            if let Some(a) = res.valid.get(&format!("zz_probe_all{k}")).and_then(|r| r.ast.as_ref()) {
                if let ast::Item::Parcelable(p) = &a.item {
                    // every custom-type node of the probe (at any depth, in every container position)
                    for (t, _, _) in crate::astx::all_types(a) {
                        if !t.name.contains('.') {
                            continue; // String, List, Map, Array
                        }
                        st.inc("registration_probes(all items imported)");
                        let written = t.name.clone();
                        match &t.kind {
                            ast::TypeKind::ResolvedItem(k2, _) if *k2 == written || k2.ends_with(&format!(".{written}")) => {}
                            other => problems.push(format!("{}: a reference written `{written}` in a file importing every item of the project resolves to {:?}, which does not designate that item", f.id, other)),
                        }
                    }
                    let _ = p;
                    let _ = &q;
                }
            }
        }
        if st.want_sample() && pairs.len() > 1 && pairs.iter().all(|f| f.1.len() < 500) {
            st.sample(json!({"files": pairs}));
        }
        if let Some(p0) = problems.first() {
            let sig = if p0.contains("item symbol: qualified") { "item-qualified-name" } else if p0.contains("not registered") || p0.contains("does not designate") { "registration-key" } else { "symbol-name" };
            st.violate("projects", i, sig, p0.chars().take(500).collect(), json!({"files": pairs, "problems": problems}));
        }
    });
    finish(
        ctx,
        stats,
        Meta {
            rule: "generated multi-file projects (every item kind, package depth 1-4, references in every position of the other files); for every file the item symbol's qualified name is compared with package.Name and with Aidl::get_key(), every type symbol resolved to an item with that item's symbol, members with Owner::member, imports/package with their dotted names, and plain names with the identifiers of the generator's model; distinct by project text hash".into(),
            assumptions: vec!["keys are unique per project in this workload (collisions are C05/C11's matter)".into()],
            exhaustive: false,
            extra: Default::default(),
            min_nontrivial: 50,
        },
    )
}
