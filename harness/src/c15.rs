//! C15 — traversal visits every node once, in order; filter and find agree with it.
//! C16 — pointing at a name finds the symbol that carries it.

use crate::c02::styles_for;
use crate::gen::{self, GenCfg, LayoutStyle};
use crate::libx;
use crate::prng::{hash_str, Rng};
use crate::runner::*;
use crate::rwalk::{self, Visit, ALL_SK, SK};
use aidl_parser::ast;
use aidl_parser::symbol::Symbol;
use aidl_parser::traverse::{self, SymbolFilter};
use serde_json::json;
use std::time::Duration;

fn filter_of(level: u8) -> SymbolFilter {
    match level {
        0 => SymbolFilter::ItemsOnly,
        1 => SymbolFilter::ItemsAndItemElements,
        _ => SymbolFilter::All,
    }
}

fn level_name(level: u8) -> &'static str {
    match level {
        0 => "ItemsOnly",
        1 => "ItemsAndItemElements",
        _ => "All",
    }
}

fn gen_tree_text(rng: &mut Rng, style: LayoutStyle) -> String {
    let cfg = GenCfg { max_members: 6, max_type_depth: 4, max_args: 3, deep_types: true, big: true, repeat_method_names: true, ..GenCfg::default() };
    let d = gen::doc(rng, &cfg);
    let r = gen::render(&d);
    gen::layout(&r.toks, rng, style, &r.forced).text
}

fn check_c15(a: &ast::Aidl, st: &mut Stats) -> Vec<String> {
    let mut problems = Vec::new();
    let all = rwalk::walk_all(a);
    for level in 0u8..3 {
        let want: Vec<&Visit> = all.iter().filter(|v| v.level <= level).collect();
        // walk_symbols
        let mut got: Vec<(SK, usize)> = Vec::new();
        traverse::walk_symbols(a, filter_of(level), |s| got.push(rwalk::of_symbol(&s)));
        st.add("symbols_visited", got.len() as u64);
        let want_ids: Vec<(SK, usize)> = want.iter().map(|v| (v.kind, v.addr)).collect();
        if got != want_ids {
            problems.push(format!(
                "walk_symbols({}) visited {} symbols {:?}, expected {} {:?}",
                level_name(level),
                got.len(),
                got.iter().map(|x| x.0).collect::<Vec<_>>(),
                want_ids.len(),
                want_ids.iter().map(|x| x.0).collect::<Vec<_>>()
            ));
            continue;
        }
        let index_map: std::collections::HashMap<(SK, usize), usize> = want_ids.iter().enumerate().map(|(i, w)| (*w, i)).collect();
        // predicates: k-th visited, kind K, name N
        let mut preds: Vec<(String, Box<dyn Fn(usize, &Visit) -> bool>)> = Vec::new();
        for k in 0..want.len() {
            preds.push((format!("is the {}-th visited", k + 1), Box::new(move |i, _| i == k)));
        }
        for kind in ALL_SK {
            preds.push((format!("is of kind {kind:?}"), Box::new(move |_, v| v.kind == kind)));
        }
        let mut names: Vec<String> = want.iter().filter_map(|v| v.name.clone()).collect();
        names.sort();
        names.dedup();
        names.push("__absent__".into());
        for n in names {
            preds.push((format!("name equals {n:?}"), Box::new(move |_, v| v.name.as_deref() == Some(n.as_str()))));
        }
        for (pname, pred) in &preds {
            let expect: Vec<(SK, usize)> = want.iter().enumerate().filter(|(i, v)| pred(*i, v)).map(|(_, v)| (v.kind, v.addr)).collect();
            // the library predicate sees a Symbol; map it back to its index in the visit order by address+kind
            let index_of = |s: &Symbol| -> Option<usize> { index_map.get(&rwalk::of_symbol(s)).copied() };
            let got_f: Vec<(SK, usize)> = traverse::filter_symbols(a, filter_of(level), |s| index_of(s).map_or(false, |i| pred(i, want[i]))).iter().map(rwalk::of_symbol).collect();
            st.inc("filter_calls");
            if got_f != expect {
                problems.push(format!("filter_symbols({}, {pname}) returned {} symbols, expected {}", level_name(level), got_f.len(), expect.len()));
            }
            let got_find = traverse::find_symbol(a, filter_of(level), |s| index_of(s).map_or(false, |i| pred(i, want[i]))).map(|s| rwalk::of_symbol(&s));
            st.inc("find_calls");
            if got_find != expect.first().cloned() {
                problems.push(format!("find_symbol({}, {pname}) returned {:?}, expected {:?}", level_name(level), got_find.map(|x| x.0), expect.first().map(|x| x.0)));
            }
            if expect.first().map(|x| x.0) == Some(SK::Package) {
                st.inc("find_calls_selecting_the_package");
            }
        }
    }
    // walkers
    let mut got_t = Vec::new();
    traverse::walk_types(a, |t| got_t.push(t as *const _ as usize));
    let want_t = rwalk::types_in_order(a);
    st.add("types_walked", want_t.len() as u64);
    if got_t != want_t {
        problems.push(format!("walk_types yielded {} types, expected {} (every type at any depth, array element before the array)", got_t.len(), want_t.len()));
    }
    let mut got_m = Vec::new();
    traverse::walk_methods(a, |m| got_m.push(m as *const _ as usize));
    if got_m != rwalk::methods_in_order(a) {
        problems.push(format!("walk_methods yielded {} methods, expected {}", got_m.len(), rwalk::methods_in_order(a).len()));
    }
    let mut got_a = Vec::new();
    traverse::walk_args(a, |m, arg| got_a.push((m as *const _ as usize, arg as *const _ as usize)));
    if got_a != rwalk::args_in_order(a) {
        problems.push(format!("walk_args yielded {} (method, argument) pairs, expected {}", got_a.len(), rwalk::args_in_order(a).len()));
    }
    let maxd = crate::astx::all_types(a).iter().map(|t| t.1).max().unwrap_or(0);
    st.max("max_type_depth_in_a_tree", maxd as u64);
    problems
}

pub fn run_c15(ctx: &Ctx) -> i32 {
    let n = ctx.tier.pick(20_000u64, 300_000);
    let stats = par_cases(ctx, "trees", n, Duration::from_secs(ctx.tier.pick(80, 900)), |i, rng, st| {
        let text = if i == 0 {
            "package p.q; import a.B; interface I { Map<String, List<Foo[]>> f(in List<List<Bar>> x, int y); const int K = 1; }".to_string()
        } else {
            let style = *rng.pick(&[LayoutStyle::Spaces, LayoutStyle::Plain, LayoutStyle::Plain, LayoutStyle::WildNoDoc, LayoutStyle::Crlf]);
            gen_tree_text(rng, style)
        };
        let one = match libx::parse_one(&text) {
            Ok(o) => o,
            Err(p) => {
                st.case(hash_str(&text), true);
                st.violate("trees", i, "panic", format!("library panicked: {p}"), json!({"text": text}));
                return;
            }
        };
        let mut nontrivial = false;
        for (which, res) in [("parse-stage", &one.stage), ("validated", &one.valid)] {
            let Some(a) = &res.ast else { continue };
            nontrivial = true;
            let r = libx_guard(|| check_c15(a, st));
            match r {
                Ok(problems) => {
                    if let Some(p0) = problems.first() {
                        let sig = if p0.contains("find_symbol") { "find-disagrees" } else if p0.contains("filter_symbols") { "filter-disagrees" } else { "walk-disagrees" };
                        st.violate("trees", i, sig, format!("{which} tree: {p0}").chars().take(600).collect(), json!({"text": text, "tree": which, "problems": problems}));
                        break;
                    }
                }
                Err(p) => {
                    st.violate("trees", i, "panic", format!("library panicked during traversal: {p}"), json!({"text": text}));
                    break;
                }
            }
        }
        st.case(hash_str(&text), nontrivial);
        if st.want_sample() && nontrivial && text.len() < 500 {
            st.sample(json!({"text": text}));
        }
    });
    finish(
        ctx,
        stats,
        Meta {
            rule: "trees (parse-stage and validated) of generated documents (all item kinds, member mixes, types nested to depth 4) x 3 filter levels x predicates 'is the k-th visited' for every k, 'is of kind K' for every symbol variant, 'name equals N' for every name present and one absent; symbols are identified by node address and variant and compared with the reference pre-order traversal; distinct by text hash, non-trivial if a tree was returned".into(),
            assumptions: vec!["the reference order: package, imports, item, each member followed by its types / arguments; array element before the array, otherwise a type before its parameters".into()],
            exhaustive: false,
            extra: Default::default(),
            min_nontrivial: 50,
        },
    )
}

fn libx_guard<T>(f: impl FnOnce() -> T) -> Result<T, String> {
    crate::runner::lib(f)
}

// ---------------------------------------------------------------------------
// C16

fn check_c16(text: &str, a: &ast::Aidl, st: &mut Stats) -> Vec<String> {
    let mut problems = Vec::new();
    let all = rwalk::walk_all(a);
    // get_range() must be the node's own name range
    traverse::walk_symbols(a, SymbolFilter::All, |s| {
        let id = rwalk::of_symbol(&s);
        if let Some(v) = all.iter().find(|v| (v.kind, v.addr) == id) {
            if *s.get_range() != v.name_range {
                problems.push(format!("get_range() of a {:?} symbol is not its name range", v.kind));
            }
        }
    });
    // every character position of the document
    let mut positions: Vec<(usize, usize)> = Vec::new();
    for (li, line) in text.split('\n').enumerate() {
        use unicode_segmentation::UnicodeSegmentation;
        let n = line.graphemes(true).count();
        for c in 1..=n + 1 {
            positions.push((li + 1, c));
        }
        positions.push((li + 1, n + 3));
        positions.push((li + 1, 0));
    }
    let nlines = text.split('\n').count();
    // the very first and the very last request are the same for every document (and often a hit in one document and a
    // miss in the next): an answer must never be carried over from another tree
    positions.insert(0, (1, 10));
    positions.extend([(0, 0), (0, 1), (nlines + 1, 1), (nlines + 5, 7), (usize::MAX, usize::MAX), (1, usize::MAX), (1, 10)]);
    for level in [2u8, 0, 1, 2] {
        let want: Vec<&Visit> = all.iter().filter(|v| v.level <= level).collect();
        for &lc in &positions {
            let expect = want.iter().find(|v| rwalk::contains_lc(&v.name_range, lc)).map(|v| (v.kind, v.addr));
            let got = traverse::find_symbol_at_line_col(a, filter_of(level), lc).map(|s| rwalk::of_symbol(&s));
            st.inc("probes");
            match expect {
                Some((k, _)) => st.inc(&format!("hits.{k:?}")),
                None => st.inc("misses"),
            }
            if got != expect {
                if problems.len() < 8 {
                    problems.push(format!("find_symbol_at_line_col({}, {:?}) returned {:?}, expected {:?}", level_name(level), lc, got.map(|x| x.0), expect.map(|x| x.0)));
                }
            }
        }
    }
    problems
}

pub fn run_c16(ctx: &Ctx) -> i32 {
    let n = ctx.tier.pick(8_000u64, 150_000);
    let stats = par_cases(ctx, "documents", n, Duration::from_secs(ctx.tier.pick(80, 900)), |i, rng, st| {
        let style = styles_for(8)[(i % 8) as usize];
        let text = if i == 0 {
            "package p.q;\nimport a.B;\ninterface I {\n  Map<String, List<Foo[]>> f(in List<List<Bar>> x, int y);\n}".to_string()
        } else {
            gen_tree_text(rng, style)
        };
        st.inc(&format!("layout.{style:?}"));
        let one = match libx::parse_one(&text) {
            Ok(o) => o,
            Err(p) => {
                st.case(hash_str(&text), true);
                st.violate("documents", i, "panic", format!("library panicked: {p}"), json!({"text": text}));
                return;
            }
        };
        let Some(a) = &one.valid.ast else {
            st.case(hash_str(&text), false);
            return;
        };
        st.case(hash_str(&text), true);
        if st.want_sample() && text.len() < 400 {
            st.sample(json!({"text": text, "probed": "every (line, column) of the text at 3 filter levels"}));
        }
        if text.contains("\r\n") {
            st.inc("documents_with_crlf");
        }
        if !text.is_ascii() {
            st.inc("documents_with_multibyte_text");
        }
        match libx_guard(|| check_c16(&text, a, st)) {
            Ok(problems) => {
                if let Some(p0) = problems.first() {
                    st.violate("documents", i, "lookup-disagrees", p0.clone(), json!({"text": text, "problems": problems}));
                }
            }
            Err(p) => st.violate("documents", i, "panic", format!("library panicked during lookup: {p}"), json!({"text": text})),
        }
    });
    finish(
        ctx,
        stats,
        Meta {
            rule: "generated documents in all layouts (multi-line, CRLF, multi-byte text before names on the same line, qualified names split over lines) x every (line, column) position of the document plus positions outside it (line 0, column 0, past the end) x 3 filter levels; expected = first symbol of the reference traversal whose name range contains the position lexicographically, inclusive at both ends; distinct by text hash, non-trivial if the document has a tree".into(),
            assumptions: vec!["the range a symbol reports (get_range) must be the node's own name range; line/column agreement of ranges with the text is C04's matter".into()],
            exhaustive: false,
            extra: Default::default(),
            min_nontrivial: 30,
        },
    )
}
