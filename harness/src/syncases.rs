//! Case generators shared by the syntax-family checks (C03, C04, C20, C01):
//! slot substitution, token-level mutation of generated documents, lexical cases.

use crate::gen::{self, GenCfg, LayoutStyle};
use crate::mutate::{self, FRAMES};
use crate::prng::Rng;

/// Bounded-exhaustive slot substitution: case index -> (frame name, text). `max_len` tokens in the slot.
pub fn slot_case(idx: u64, frames: &[usize], max_len: usize, rng: &mut Rng) -> Option<(String, String)> {
    let per = mutate::kind_seq_space(max_len);
    let f = (idx / per) as usize;
    if f >= frames.len() {
        return None;
    }
    let (name, frame) = FRAMES[frames[f]];
    let seq = mutate::decode_kind_seq(idx % per, max_len)?;
    Some((name.to_string(), mutate::fill_frame(frame, &seq, rng)))
}

pub fn slot_space(frames: &[usize], max_len: usize) -> u64 {
    frames.len() as u64 * mutate::kind_seq_space(max_len)
}

/// Random multi-edit mutation of a generated well-formed document.
pub fn mutation_case(rng: &mut Rng) -> (String, String) {
    let cfg = GenCfg { max_members: 4, max_type_depth: 3, ..GenCfg::default() };
    let mut d = gen::doc(rng, &cfg);
    if rng.chance(1, 8) {
        // statement-level edit: the header statements (package, imports, forward declarations) and the item in a
        // shuffled order, statements duplicated or dropped (the grammar fixes their order)
        if d.imports.is_empty() {
            d.imports.push(gen::qualified(rng, 2, 3));
        }
        if d.declared.is_empty() {
            d.declared.push(crate::model::Declared { anns: vec![], segs: gen::qualified(rng, 1, 2) });
        }
        let r = gen::render(&d);
        let text = |a: usize, b: usize| -> String { r.toks[a..=b].iter().map(|t| t.text.clone()).collect::<Vec<_>>().join(" ") };
        let mut stmts: Vec<String> = Vec::new();
        stmts.push(text(r.exp.package.anchor, r.exp.package.term.unwrap()));
        for n in r.exp.imports.iter().chain(r.exp.declared.iter()) {
            stmts.push(text(n.anchor, n.term.unwrap()));
        }
        let item = text(r.exp.item.anchor, r.exp.item.last);
        let header_len = stmts.len();
        match rng.below(4) {
            0 => {
                // swap two header statements (not the package)
                if header_len > 2 {
                    let a = rng.range(1, header_len - 1);
                    let b = rng.range(1, header_len - 1);
                    stmts.swap(a, b);
                }
                stmts.push(item);
            }
            1 => {
                stmts.push(item);
                rng.shuffle(&mut stmts);
            }
            2 => {
                let k = rng.below(stmts.len());
                let dup = stmts[k].clone();
                let at = rng.below(stmts.len() + 1);
                stmts.insert(at, dup);
                stmts.push(item);
            }
            _ => {
                // a header statement after the item
                let k = rng.below(stmts.len());
                let moved = stmts.remove(k);
                stmts.push(item);
                stmts.push(moved);
            }
        }
        return ("statement_order".to_string(), stmts.join(rng.pick_str(&[" ", "\n", "  "])));
    }
    let r = gen::render(&d);
    let mut pieces: Vec<String> = r.toks.iter().map(|t| t.text.clone()).collect();
    let n_edits = match rng.below(10) {
        0 => 0,
        1..=5 => 1,
        6 | 7 => 2,
        8 => 3,
        _ => rng.range(4, 8),
    };
    let kinds = mutate::mutate_pieces(rng, &mut pieces, n_edits, 1, 8);
    let label = if kinds.is_empty() { "unmutated".to_string() } else { kinds.join("+") };
    let seps = if rng.chance(3, 4) { mutate::SEPS_SIMPLE } else { mutate::SEPS_TIGHT };
    (label, mutate::join(rng, &pieces, seps))
}

pub const LEX_CONTEXTS: &[(&str, &str)] = &[
    ("type", "package p; parcelable P { <X> f; }"),
    ("name", "package p; parcelable P { int <X>; }"),
    ("value", "package p; parcelable P { int f = <X>; }"),
    ("code", "package p; interface I { void f() = <X>; }"),
    ("package", "package <X>; enum E {}"),
    ("alone", "<X>"),
    ("enum_element", "package p; enum E { <X> }"),
    ("enum_value", "package p; enum E { A = <X> }"),
    ("arg", "package p; interface I { void f(<X> a); }"),
    ("annotation", "package p; <X> interface I {}"),
    ("ann_value", "package p; @A(k=<X>) interface I {}"),
    ("trailing", "package p; interface I {} <X>"),
    ("const_value", "package p; interface I { const String S = <X>; }"),
    ("import", "package p; import <X>; interface I {}"),
    ("leading", "<X>package p; interface I { void f(); const String S = \"€\"; }"),
    ("leading_line", "<X>\npackage p; enum E { A }"),
    ("member_name", "package p; interface I { int <X>(); int <X>(in int a); }"),
    ("trailing_tight", "package p; interface I { void f(); }<X>"),
    ("after_package", "package p;<X> enum E { A }"),
    ("inside_item", "package p; parcelable P { int a;<X> int b; }"),
];

pub const LEXEMES: &[&str] = &[
    "in", "int", "inout", "inoutx", "ins", "out", "outx", "do", "double", "doubles", "enum", "enums", "true", "trueish", "false", "falsey", "void", "voidx",
    "for", "forx", "if", "iff", "new", "news", "this", "char", "chars", "long", "longer", "List", "Lists", "Map", "Maps", "String", "Strings", "CharSequence",
    "CharSequences", "oneway", "oneways", "const", "consts", "package", "packages", "interface", "interfaces", "parcelable", "import", "Import", "IN", "Int",
    "12", "12f", "-.5f", "1.", ".5", "+3", "-3", "٣", "３", "1e5", "0x1F", "1.2.3", "1..2", "--3", "+-3", "1f", "f1", "1_000", "00", "4294967295",
    "4294967296", "99999999999999999999", "\"abc\"", "\"abc", "abc\"", "\"a\nb\"", "\"a\rb\"", "\"\"", "\"\"\"", "\"é漢😀\"", "\"/*\"", "\"//\"",
    "/* unterminated", "/*/", "/**/", "/***/", "/* a */", "/** d */", "// eof", "//", "/", "*/", "é", "a-b", "a - b", "-", "@", "@1", "@a", "@a.b", "@ a",
    "a..b", ".a", "a.", "a.b", "a . b", "a.b.c", "_", "__", "_1", "a1", "1a", "a\u{a0}b", "a\u{2028}b", "x\u{301}", "\u{feff}", "\0", "#", "'a'", "a b",
    "a/**/b", "a//c\nb", "TRUE", "FALSE", "True", "Interface", "ENUM", "Parcelable", "OneWay", "Package", "Import", "IN", "Void", "null", "\u{feff}\u{feff}", "\u{200b}",
    "\u{feff}x", "\u{1a}", "\u{4}", "\u{1}", "\u{7}", "\u{8}", "\u{1b}", "\u{1c}", "\u{1f}", "\u{7f}", "\u{80}", "\u{9f}", "\u{ad}", "\u{200c}", "\u{200d}", "\u{200e}",
    "\u{2060}", "\u{fffd}", "\u{ffff}", "\u{e000}", "\u{10ffff}", "\u{1a}\n", " \u{1a}", "cons", "interfac", "enumm", "packag", "imprt", "onewa", "parcelabl",
    "\"Herzlich willkommen sowie die allerbesten Grüße aus München und Österreich\"", "\"ééééééééééééééééééééééééééééééééééééééééééééééééééééééé\"", "int[]", "int []", "int[ ]", "int[][]", "List<int>", "List<>", "List<List<int>>", "Map<String,int>", "Map<String>", "{}", "{1}",
    "{1 2}", "{1,}", "{,}", "A.B", "A.B.C", "IBinder", "android.os.IBinder", "", " ", "\n", "\r\n",
];

pub fn lexical_case(idx: u64, rng: &mut Rng) -> (String, String) {
    let n_directed = (LEX_CONTEXTS.len() * LEXEMES.len()) as u64;
    if idx < n_directed {
        let c = LEX_CONTEXTS[(idx as usize) / LEXEMES.len()];
        let l = LEXEMES[(idx as usize) % LEXEMES.len()];
        return (format!("lexeme@{}", c.0), c.1.replace("<X>", l));
    }
    // random character-level splices of a small generated document
    let cfg = GenCfg { max_members: 3, max_type_depth: 2, max_args: 2, ..GenCfg::default() };
    let d = gen::doc(rng, &cfg);
    let r = gen::render(&d);
    let style = *rng.pick(&[LayoutStyle::Spaces, LayoutStyle::Plain, LayoutStyle::Minimal, LayoutStyle::WildNoDoc]);
    let laid = gen::layout(&r.toks, rng, style, &r.forced);
    let mut text = laid.text;
    if rng.chance(1, 5) {
        // a character the library's own source mentions, at a file edge or at a random character boundary
        if let Some(c) = crate::vocab::lex_safe_char(rng) {
            let bounds: Vec<usize> = text.char_indices().map(|x| x.0).chain(std::iter::once(text.len())).collect();
            let at = match rng.below(3) {
                0 => 0,
                1 => text.len(),
                _ => bounds[rng.below(bounds.len())],
            };
            text.insert(at, c);
            return ("dictionary_char".to_string(), text);
        }
    }
    let n = rng.range(1, 3);
    for _ in 0..n {
        text = mutate::char_splice(rng, &text);
    }
    ("char_splice".to_string(), text)
}

pub fn lexical_directed_count() -> u64 {
    (LEX_CONTEXTS.len() * LEXEMES.len()) as u64
}
