//! C19 — serialising a tree and reading it back gives an equal tree.

use crate::gen::{self, GenCfg, LayoutStyle};
use crate::libx;
use crate::proj::{self, ProjCfg};
use crate::prng::hash_str;
use crate::runner::*;
use crate::astx;
use aidl_parser::ast;
use serde_json::json;
use std::time::Duration;

fn field_coverage(a: &ast::Aidl, st: &mut Stats) {
    let pa = |st: &mut Stats, name: &str, present: bool| st.inc(&format!("field.{name}.{}", if present { "present" } else { "absent" }));
    let anns_cov = |st: &mut Stats, anns: &[ast::Annotation]| {
        pa(st, "annotations", !anns.is_empty());
        for a in anns {
            pa(st, "annotation.key_values", !a.key_values.is_empty());
        }
    };
    match &a.item {
        ast::Item::Interface(i) => {
            st.inc("item.interface");
            pa(st, "interface.oneway(true)", i.oneway);
            pa(st, "item.doc", i.doc.is_some());
            anns_cov(st, &i.annotations);
            for e in &i.elements {
                match e {
                    ast::InterfaceElement::Method(m) => {
                        pa(st, "method.oneway(true)", m.oneway);
                        pa(st, "method.transact_code", m.transact_code.is_some());
                        pa(st, "method.doc", m.doc.is_some());
                        anns_cov(st, &m.annotations);
                        for arg in &m.args {
                            pa(st, "arg.direction", arg.direction != ast::Direction::Unspecified);
                            pa(st, "arg.name", arg.name.is_some());
                            pa(st, "arg.doc", arg.doc.is_some());
                            anns_cov(st, &arg.annotations);
                        }
                    }
                    ast::InterfaceElement::Const(c) => {
                        pa(st, "const.doc", c.doc.is_some());
                        anns_cov(st, &c.annotations);
                    }
                }
            }
        }
        ast::Item::Parcelable(p) => {
            st.inc("item.parcelable");
            pa(st, "item.doc", p.doc.is_some());
            for e in &p.elements {
                if let ast::ParcelableElement::Field(f) = e {
                    pa(st, "field.value", f.value.is_some());
                    pa(st, "field.doc", f.doc.is_some());
                    anns_cov(st, &f.annotations);
                }
            }
        }
        ast::Item::Enum(e) => {
            st.inc("item.enum");
            pa(st, "item.doc", e.doc.is_some());
            for el in &e.elements {
                pa(st, "enum_element.value", el.value.is_some());
                pa(st, "enum_element.doc", el.doc.is_some());
            }
        }
    }
    for (t, _, _) in astx::all_types(a) {
        let k = match &t.kind {
            ast::TypeKind::ResolvedItem(_, k) => format!("resolved_item.{k:?}"),
            ast::TypeKind::AndroidType(k) => format!("android.{k:?}"),
            other => format!("{other:?}"),
        };
        st.seen("type_kinds_round_tripped", &k);
        pa(st, "type.generic_types", !t.generic_types.is_empty());
    }
}

fn round_trip(a: &ast::Aidl) -> Result<(), (String, String)> {
    let ron_txt = ron::to_string(a).map_err(|e| ("ron-serialize-failed".to_string(), e.to_string()))?;
    let back: ast::Aidl = ron::from_str(&ron_txt).map_err(|e| ("ron-deserialize-failed".to_string(), format!("{e}")))?;
    if back != *a {
        // is the only difference the oneway flags?
        let mut patched = back.clone();
        if let (ast::Item::Interface(pi), ast::Item::Interface(oi)) = (&mut patched.item, &a.item) {
            for (pe, oe) in pi.elements.iter_mut().zip(oi.elements.iter()) {
                if let (ast::InterfaceElement::Method(pm), ast::InterfaceElement::Method(om)) = (pe, oe) {
                    pm.oneway = om.oneway;
                }
            }
        }
        let sig = if patched == *a { "ron-oneway-flag-lost" } else { "ron-round-trip-differs" };
        return Err((sig.to_string(), first_difference(a, &back)));
    }
    // serde_json alongside (labelled separately so that a RON escaping quirk can be told apart); serde_json
    // refuses documents nested deeper than 128 levels, which a type nested ~40 deep exceeds: skipped then
    if astx::all_types(a).iter().map(|t| t.1).max().unwrap_or(0) > 20 {
        return Ok(());
    }
    let js = serde_json::to_string(a).map_err(|e| ("json-serialize-failed".to_string(), e.to_string()))?;
    let back: ast::Aidl = serde_json::from_str(&js).map_err(|e| ("json-deserialize-failed".to_string(), e.to_string()))?;
    if back != *a {
        return Err(("json-round-trip-differs".to_string(), first_difference(a, &back)));
    }
    Ok(())
}

fn first_difference(a: &ast::Aidl, b: &ast::Aidl) -> String {
    let x = serde_json::to_value(a).unwrap_or_default();
    let y = serde_json::to_value(b).unwrap_or_default();
    fn rec(p: String, x: &serde_json::Value, y: &serde_json::Value) -> Option<String> {
        use serde_json::Value::*;
        match (x, y) {
            (Object(m), Object(n)) => {
                for (k, v) in m {
                    match n.get(k) {
                        Some(w) => {
                            if let Some(d) = rec(format!("{p}.{k}"), v, w) {
                                return Some(d);
                            }
                        }
                        None => return Some(format!("{p}.{k}: present before, absent after")),
                    }
                }
                for k in n.keys() {
                    if !m.contains_key(k) {
                        return Some(format!("{p}.{k}: absent before, present after"));
                    }
                }
                None
            }
            (Array(m), Array(n)) => {
                if m.len() != n.len() {
                    return Some(format!("{p}: {} elements before, {} after", m.len(), n.len()));
                }
                m.iter().zip(n.iter()).enumerate().find_map(|(i, (v, w))| rec(format!("{p}[{i}]"), v, w))
            }
            _ => {
                if x != y {
                    Some(format!("{p}: {x} before, {y} after"))
                } else {
                    None
                }
            }
        }
    }
    rec(String::new(), &x, &y).unwrap_or_else(|| "trees differ (not visible in the serialised form: a skipped field changed)".into())
}

fn judge_tree(stage: &str, i: u64, which: &str, a: &ast::Aidl, context: &serde_json::Value, st: &mut Stats) {
    field_coverage(a, st);
    st.inc(&format!("trees.{which}"));
    if st.want_sample() {
        if let Ok(r) = ron::to_string(a) {
            if r.len() < 1500 {
                st.sample(json!({"tree": which, "ron": r}));
            }
        }
    }
    match crate::runner::lib(|| round_trip(a)) {
        Ok(Ok(())) => {}
        Ok(Err((sig, what))) => st.violate(stage, i, &sig, format!("{which} tree does not survive the round trip: {what}"), json!({"context": context, "difference": what})),
        Err(p) => st.violate(stage, i, "panic", format!("panic during (de)serialisation: {p}"), json!({"context": context})),
    }
}

pub fn run(ctx: &Ctx) -> i32 {
    let mut stats = Stats::default();
    // directed witnesses
    const DIRECTED: &[&str] = &[
        "package p; interface I { oneway void f(); void g(); }",
        "package p; oneway interface I { void f(); oneway void g() = 3; }",
        "package p; /** doc \"q\" \\ \t é */ @A(k=\"v\\\", j) parcelable P { /** x */ int a = -1; String s = \"\\n\"; }",
        "package p; enum E { /** d */ A = 1, B }",
    ];
    stats.merge(par_cases(ctx, "directed", DIRECTED.len() as u64, Duration::from_secs(30), |i, _r, st| {
        let text = DIRECTED[i as usize];
        st.case(hash_str(text), true);
        if let Ok(one) = libx::parse_one(text) {
            for (which, res) in [("parse_stage", &one.stage), ("validated", &one.valid)] {
                if let Some(a) = &res.ast {
                    judge_tree("directed", i, which, a, &json!({"text": text}), st);
                }
            }
        }
    }));
    // trees of generated projects (resolved kinds) ...
    stats.merge(par_cases(ctx, "projects", ctx.tier.pick(6_000u64, 100_000), Duration::from_secs(ctx.tier.pick(60, 900)), |i, rng, st| {
        let pr = proj::project(rng, &ProjCfg::default());
        let pairs = pr.as_pairs();
        st.case(hash_str(&pairs.iter().map(|f| f.1.clone()).collect::<Vec<_>>().join("\u{1}")), true);
        match libx::parse_project(&pairs) {
            Ok(res) => {
                for (id, r) in &res.valid {
                    if let Some(a) = &r.ast {
                        judge_tree("projects", i, "validated", a, &json!({"files": pairs, "file": id}), st);
                    }
                }
                for (id, r) in &res.stage {
                    if let Some(a) = &r.ast {
                        judge_tree("projects", i, "parse_stage", a, &json!({"files": pairs, "file": id}), st);
                    }
                }
            }
            Err(p) => st.violate("projects", i, "panic", format!("library panicked: {p}"), json!({"files": pairs})),
        }
    }));
    // ... and of generated documents in wild layouts (docs with quotes, backslashes, control and multi-byte characters)
    stats.merge(par_cases(ctx, "documents", ctx.tier.pick(8_000u64, 150_000), Duration::from_secs(ctx.tier.pick(60, 900)), |i, rng, st| {
        let d = gen::doc(rng, &GenCfg { big: true, deep_types: true, repeat_method_names: true, allow_overflow_codes: true, ..GenCfg::default() });
        let r = gen::render(&d);
        let laid = gen::layout(&r.toks, rng, LayoutStyle::Wild, &r.forced);
        st.case(hash_str(&laid.text), true);
        match libx::parse_one(&laid.text) {
            Ok(one) => {
                for (which, res) in [("parse_stage", &one.stage), ("validated", &one.valid)] {
                    if let Some(a) = &res.ast {
                        judge_tree("documents", i, which, a, &json!({"text": laid.text}), st);
                    }
                }
            }
            Err(p) => st.violate("documents", i, "panic", format!("library panicked: {p}"), json!({"text": laid.text})),
        }
    }));
    finish(
        ctx,
        stats,
        Meta {
            rule: "parse-stage (hook H1) and validated trees of generated projects (all type kinds incl. resolved items, built-ins, unknown imports, forward declarations) and of generated documents in wild layouts (documentation with quotes, backslashes, control and multi-byte characters; every optional field present and absent), serialised with RON 0.7.1 and serde_json and read back; compared with PartialEq; distinct by source text hash, every case non-trivial".into(),
            assumptions: vec!["ron 0.7.1 and serde_json are trusted as self-describing formats; a RON-only failure is labelled as such".into()],
            exhaustive: false,
            extra: Default::default(),
            min_nontrivial: 50,
        },
    )
}
