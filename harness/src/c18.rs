//! C18 — documentation is taken from the directly preceding doc comment, verbatim.

use crate::gen::{self, GenCfg, LayoutStyle};
use crate::libx;
use crate::model::*;
use crate::prng::{hash_str, Rng};
use crate::runner::*;
use aidl_parser::ast;
use serde_json::json;
use std::time::Duration;

// ---------------------------------------------------------------------------
// R-doc: doc model -> (comment text, expected documentation)

const ASCII_WORDS: &[&str] = &["<p>", "</p>", "<br>", "<li>", "{link", "Foo}", "<p>", "&amp;", "hello", "world", "Returns", "the", "value.", "x", "a-b", "(see", "below)", "100%", "it's", "\"quoted\"", "end;", "{k}", "a,b", "#1", "e.g.", "T<U>", "snake_case", "A"];
const ACCENT_WORDS: &[&str] = &["Größe", "é", "naïve", "señor", "Übung", "ça", "œuvre", "Ärger", "ñ", "façade"];
const CJK_WORDS: &[&str] = &["漢字", "日本語", "中", "テスト", "한글", "文書"];
const EMOJI_WORDS: &[&str] = &["😀", "👍", "🚀🚀", "e\u{301}", "🙂ok", "✓"];
/// "words" that begin or end with a Unicode space character (they are text, not decoration)
const USPACE_WORDS: &[&str] = &["\u{3000}字下げ", "x\u{a0}", "\u{a0}!", "\u{2003}em", "fin\u{202f}", "\u{3000}", "\u{feff}bom", "nb\u{a0}sp", "\u{85}", "\u{2028}ls"];
const TAGS: &[&str] = &["@param", "@return", "@throws", "@deprecated", "@see", "@hide"];

#[derive(Clone, Debug)]
struct DocModel {
    /// paragraphs -> lines -> words
    paras: Vec<Vec<Vec<String>>>,
}

fn word(rng: &mut Rng, st: &mut Stats) -> String {
    if rng.chance(1, 12) {
        // a word the library's own source mentions
        if let Some(w) = crate::vocab::word(rng) {
            if !w.is_empty() && !w.starts_with('<') || w == "<p>" {
                st.inc("doc_words.from_source_dictionary");
                return w;
            }
        }
    }
    match rng.below(10) {
        0..=4 => rng.pick_str(ASCII_WORDS).to_string(),
        5 | 6 => {
            st.inc("doc_words.accented");
            rng.pick_str(ACCENT_WORDS).to_string()
        }
        7 | 8 => {
            st.inc("doc_words.cjk");
            rng.pick_str(CJK_WORDS).to_string()
        }
        _ => {
            if rng.chance(1, 3) {
                st.inc("doc_words.with_unicode_space_characters");
                return rng.pick_str(USPACE_WORDS).to_string();
            }
            st.inc("doc_words.emoji_or_combining");
            rng.pick_str(EMOJI_WORDS).to_string()
        }
    }
}

fn doc_model(rng: &mut Rng, st: &mut Stats) -> DocModel {
    if rng.chance(1, 12) {
        return DocModel { paras: vec![] }; // empty doc comment
    }
    // once in a while a very long doc comment (> 4 KiB, > 8 KiB)
    let huge = rng.chance(1, 150);
    let np = if huge {
        rng.range(20, 60)
    } else {
        match rng.below(6) {
            0..=3 => 1,
            4 => 2,
            _ => 3,
        }
    };
    let mut paras = Vec::new();
    for _ in 0..np {
        let nl = if huge { rng.range(3, 8) } else { rng.range(1, 3) };
        let mut lines = Vec::new();
        for _ in 0..nl {
            let nw = if huge { rng.range(4, 10) } else { rng.range(1, 4) };
            let mut words: Vec<String> = Vec::new();
            for wi in 0..nw {
                if rng.chance(1, 7) {
                    st.inc(if wi == 0 { "doc_tags.at_line_start" } else { "doc_tags.mid_line" });
                    words.push(rng.pick_str(TAGS).to_string());
                } else {
                    words.push(word(rng, st));
                }
            }
            lines.push(words);
        }
        paras.push(lines);
    }
    DocModel { paras }
}

/// Expected documentation string, computed from the model only.
fn expected_doc(m: &DocModel) -> String {
    let mut out = String::new();
    for (pi, para) in m.paras.iter().enumerate() {
        if pi > 0 {
            out.push('\n');
        }
        let mut first = true;
        for line in para {
            for w in line {
                if !first {
                    out.push(if w.starts_with('@') { '\n' } else { ' ' });
                }
                out.push_str(w);
                first = false;
            }
        }
    }
    out
}

/// Comment text with decoration. `nl` is the line ending of the document.
fn doc_text(m: &DocModel, rng: &mut Rng, nl: &str, st: &mut Stats) -> String {
    if m.paras.is_empty() {
        st.inc("doc_shape.empty");
        return rng.pick_str(&["/** */", "/***/", "/**  */", "/**\t*/"]).replace('\n', nl);
    }
    let total_lines: usize = m.paras.iter().map(|p| p.len()).sum();
    if total_lines == 1 && rng.chance(1, 2) {
        st.inc("doc_shape.single_line");
        let pad_l = rng.pick_str(&[" ", "  ", "\t", ""]);
        let pad_r = rng.pick_str(&[" ", "  ", "\t", ""]);
        let line = m.paras[0][0].join(" ");
        // content must not start with '*' (the library does not see `/***x` as a doc comment start)
        return format!("/**{pad_l}{line}{pad_r}*/");
    }
    st.inc(&format!("doc_shape.paragraphs{}", m.paras.len().min(3)));
    let style = rng.below(4);
    st.inc(match style {
        0 => "doc_decoration.star_prefix",
        1 => "doc_decoration.none",
        2 => "doc_decoration.ragged",
        _ => "doc_decoration.star_tabs_trailing_spaces",
    });
    let indent = rng.pick_str(&[" ", "   ", "\t", "     "]).to_string();
    let mut s = String::from("/**");
    // first line either directly after the opener or on its own line
    let inline_first = rng.chance(1, 4);
    let mut first_line = true;
    for (pi, para) in m.paras.iter().enumerate() {
        if pi > 0 {
            // one blank decorated line
            s.push_str(nl);
            s.push_str(match style {
                0 => " *",
                1 => "",
                2 => rng.pick_str(&["  *", "*", "   ", " * "]),
                _ => "\t * \t",
            });
        }
        for line in para {
            let prefix: String = match style {
                0 => format!("{indent}* "),
                1 => indent.clone(),
                2 => rng.pick_str(&[" * ", "*", "   *  ", "", "\t", " ** "]).to_string(),
                _ => "\t *\t".to_string(),
            };
            let trailing = match style {
                2 | 3 => rng.pick_str(&["", " ", "  ", "\t"]),
                _ => "",
            };
            if first_line && inline_first {
                s.push(' ');
            } else {
                s.push_str(nl);
                s.push_str(&prefix);
            }
            first_line = false;
            s.push_str(&line.join(" "));
            s.push_str(trailing);
        }
    }
    // closer
    if rng.chance(3, 4) {
        s.push_str(nl);
        s.push_str(rng.pick_str(&[" ", "", "   ", "\t "]));
    } else {
        s.push(' ');
    }
    s.push_str("*/");
    s
}

// ---------------------------------------------------------------------------
// Situations

thread_local! { static COL0: std::cell::Cell<bool> = std::cell::Cell::new(false); }

fn ws(rng: &mut Rng, nl: &str, allow_empty: bool) -> String {
    if COL0.with(|c| c.get()) {
        // "column 0" mode: every piece of the gap starts a new line without indentation
        return if rng.chance(1, 6) { format!("{nl}{nl}") } else { nl.to_string() };
    }
    let opts: &[&str] = if allow_empty { &["", " ", "  ", "\n", "\n  ", "\t", "\n\n", " \n"] } else { &[" ", "  ", "\n", "\n  ", "\t", "\n\n"] };
    rng.pick_str(opts).replace('\n', nl)
}

fn ordinary(rng: &mut Rng, nl: &str) -> String {
    const TEXTS: &[&str] = &["", " note", " TODO fix", " é漢", " x = 1;", " \"s\"", " @param", " (a, b)", "  ", " 😀"];
    if rng.chance(1, 2) {
        format!("/*{}*/", rng.pick_str(TEXTS))
    } else {
        format!("//{}{}", rng.pick_str(TEXTS), nl)
    }
}

/// Builds the forced gap in front of a documentable construct and the expected documentation.
fn situation(rng: &mut Rng, nl: &str, st: &mut Stats, kind: &str) -> (String, Option<String>, &'static str) {
    let col0 = rng.chance(1, 4);
    COL0.with(|c| c.set(col0));
    let r = situation_inner(rng, nl, st, kind);
    COL0.with(|c| c.set(false));
    if col0 {
        st.inc("gaps_with_every_comment_at_column_0");
        // the construct itself may follow the last comment on the same line
        if r.0.ends_with(nl) && rng.chance(1, 2) && !r.0.trim_end().ends_with(|c: char| c != '/' ) {
            let trimmed = r.0[..r.0.len() - nl.len()].to_string();
            if trimmed.ends_with("*/") {
                return (format!("{trimmed} "), r.1, r.2);
            }
        }
    }
    r
}

fn situation_inner(rng: &mut Rng, nl: &str, st: &mut Stats, kind: &str) -> (String, Option<String>, &'static str) {
    let s = rng.below(12);
    match s {
        0..=2 => (ws(rng, nl, false), None, "no_comment"),
        3 | 4 => {
            let mut g = ws(rng, nl, false);
            let n = rng.range(1, 2);
            for _ in 0..n {
                g.push_str(&ordinary(rng, nl));
                g.push_str(&ws(rng, nl, true));
            }
            (g, None, "ordinary_comment_only")
        }
        5..=7 => {
            let m = doc_model(rng, st);
            let mut g = ws(rng, nl, false);
            g.push_str(&doc_text(&m, rng, nl, st));
            g.push_str(&ws(rng, nl, true));
            let _ = kind;
            (g, Some(expected_doc(&m)), "doc_comment")
        }
        8 | 9 => {
            let m = doc_model(rng, st);
            let mut g = ws(rng, nl, false);
            g.push_str(&doc_text(&m, rng, nl, st));
            g.push_str(&ws(rng, nl, true));
            let n = rng.range(1, 2);
            for _ in 0..n {
                g.push_str(&ordinary(rng, nl));
                g.push_str(&ws(rng, nl, true));
            }
            (g, Some(expected_doc(&m)), "doc_then_ordinary_comments")
        }
        10 => {
            let m1 = doc_model(rng, st);
            let m2 = doc_model(rng, st);
            let mut g = ws(rng, nl, false);
            g.push_str(&doc_text(&m1, rng, nl, st));
            g.push_str(&ws(rng, nl, true));
            g.push_str(&doc_text(&m2, rng, nl, st));
            g.push_str(&ws(rng, nl, true));
            (g, Some(expected_doc(&m2)), "two_doc_comments")
        }
        _ => {
            // doc comment trailing the previous construct on its line, this construct on the next line
            let m = doc_model(rng, st);
            let mut g = String::from(" ");
            g.push_str(&doc_text(&m, rng, nl, st));
            g.push_str(nl);
            g.push_str("  ");
            (g, Some(expected_doc(&m)), "doc_trailing_previous_line")
        }
    }
}

fn sanitize_ann(a: &mut Ann) {
    if let Some(ps) = &mut a.params {
        for (_, v) in ps.iter_mut() {
            if let Some(s) = v {
                if s.contains('/') || s.contains('*') || s.contains('"') {
                    *s = "1".into();
                }
            }
        }
    }
}

fn sanitize_val(v: &mut Val) {
    match v {
        Val::Scalar(s) => {
            if s.contains('/') || s.contains('*') {
                *s = "\"ok\"".into();
            }
        }
        Val::Braces { first, rest, .. } => {
            first.iter_mut().for_each(sanitize_val);
            rest.iter_mut().for_each(sanitize_val);
        }
        _ => {}
    }
}

struct Expectation {
    what: String,
    doc: Option<String>,
    class: &'static str,
}

pub fn run(ctx: &Ctx) -> i32 {
    let n = ctx.tier.pick(15_000u64, 250_000);
    let stats = par_cases(ctx, "documents", n, Duration::from_secs(ctx.tier.pick(80, 900)), |i, rng, st| {
        let cfg = GenCfg { max_members: 5, max_args: 3, max_type_depth: 2, ann_num: 1, ann_den: 3, big: true, repeat_method_names: true, ..GenCfg::default() };
        let mut d = gen::doc(rng, &cfg);
        let crlf = rng.chance(1, 3);
        let nl = if crlf { "\r\n" } else { "\n" };
        // sanitize values / annotation parameters (no '/' or '*' outside comments: the property's domain)
        d.item.anns.iter_mut().for_each(sanitize_ann);
        d.declared.iter_mut().for_each(|dp| dp.anns.iter_mut().for_each(sanitize_ann));
        let mut exps: Vec<Expectation> = Vec::new();
        let (g, e, c) = situation(rng, nl, st, "item");
        d.item.pre.forced = Some(g);
        exps.push(Expectation { what: format!("item {}", d.item.name), doc: e, class: c });
        let mut prev_had_doc_same_line = false;
        for m in d.item.members.iter_mut() {
            match m {
                Member::Method { anns, args, .. } => {
                    anns.iter_mut().for_each(sanitize_ann);
                    for a in args.iter_mut() {
                        a.anns.iter_mut().for_each(sanitize_ann);
                    }
                }
                Member::Const { anns, value, .. } => {
                    anns.iter_mut().for_each(sanitize_ann);
                    sanitize_val(value);
                }
                Member::Field { anns, value, .. } => {
                    anns.iter_mut().for_each(sanitize_ann);
                    if let Some(v) = value {
                        sanitize_val(v);
                    }
                }
                Member::EnumElem { anns, value, .. } => {
                    anns.iter_mut().for_each(sanitize_ann);
                    if let Some(v) = value {
                        if v.contains('/') || v.contains('*') {
                            *v = "1".into();
                        }
                    }
                }
            }
            let kind = match m {
                Member::Method { .. } => "method",
                Member::Const { .. } => "const",
                Member::Field { .. } => "field",
                Member::EnumElem { .. } => "enum_element",
            };
            let (g, e, mut c) = situation(rng, nl, st, kind);
            if c == "no_comment" && prev_had_doc_same_line && !g.contains('\n') {
                c = "doc_belongs_to_previous_member(same line)";
            } else if c == "no_comment" && prev_had_doc_same_line {
                c = "doc_belongs_to_previous_member(previous line)";
            }
            prev_had_doc_same_line = e.is_some();
            m.pre_mut().forced = Some(g);
            exps.push(Expectation { what: format!("{kind} {}", m.name()), doc: e, class: c });
            if let Member::Method { args, name, .. } = m {
                for (ai, a) in args.iter_mut().enumerate() {
                    // arguments: mostly nothing, sometimes a doc comment
                    let (g, e, c) = if rng.chance(1, 2) { (rng.pick_str(&["", " ", "  "]).to_string(), None, "no_comment") } else { situation(rng, nl, st, "arg") };
                    a.pre.forced = Some(g);
                    exps.push(Expectation { what: format!("argument {ai} of {name}"), doc: e, class: c });
                }
            }
        }
        let r = gen::render(&d);
        let style = if crlf { LayoutStyle::Crlf } else { *rng.pick(&[LayoutStyle::Plain, LayoutStyle::Spaces]) };
        let laid = gen::layout(&r.toks, rng, style, &r.forced);
        assert!(gen::layout_is_faithful(&r.toks, &laid), "C18 layout not faithful: {:?}", laid.text);
        let text = &laid.text;
        st.case(hash_str(text), exps.iter().any(|e| e.doc.is_some()));
        if crlf {
            st.inc("documents_crlf");
        }
        let one = match libx::parse_one(text) {
            Ok(o) => o,
            Err(p) => {
                st.violate("documents", i, "panic", format!("library panicked: {p}"), json!({"text": text, "panic": p}));
                return;
            }
        };
        let Some(a) = &one.stage.ast else {
            st.violate("documents", i, "no-tree", "no tree for a well-formed document".into(), json!({"text": text, "diagnostics": libx::diags_brief(&one.stage.diagnostics)}));
            return;
        };
        // collect the docs in the same order as the expectations
        let mut got: Vec<Option<String>> = Vec::new();
        match &a.item {
            ast::Item::Interface(it) => {
                got.push(it.doc.clone());
                for e in &it.elements {
                    match e {
                        ast::InterfaceElement::Method(m) => {
                            got.push(m.doc.clone());
                            for arg in &m.args {
                                got.push(arg.doc.clone());
                            }
                        }
                        ast::InterfaceElement::Const(c) => got.push(c.doc.clone()),
                    }
                }
            }
            ast::Item::Parcelable(it) => {
                got.push(it.doc.clone());
                for e in &it.elements {
                    match e {
                        ast::ParcelableElement::Field(f) => got.push(f.doc.clone()),
                        ast::ParcelableElement::Const(c) => got.push(c.doc.clone()),
                    }
                }
            }
            ast::Item::Enum(it) => {
                got.push(it.doc.clone());
                for e in &it.elements {
                    got.push(e.doc.clone());
                }
            }
        }
        let mut problems = Vec::new();
        if got.len() != exps.len() {
            problems.push(format!("{} documentable constructs in the tree, {} in the document", got.len(), exps.len()));
        } else {
            for (g, e) in got.iter().zip(exps.iter()) {
                let kind = e.what.split(' ').next().unwrap_or("");
                st.inc(&format!("construct.{kind}.{}", e.class));
                if *g != e.doc {
                    problems.push(format!("{} [{}]: documentation {:?}, expected {:?}", e.what, e.class, g, e.doc));
                }
                if let Some(d) = &e.doc {
                    if !d.is_ascii() {
                        st.inc("docs_with_multibyte_characters");
                    }
                }
            }
        }
        if st.want_sample() && exps.iter().filter(|e| e.doc.is_some()).count() >= 2 && text.len() < 900 {
            st.sample(json!({"text": text, "expected": exps.iter().map(|e| json!({"construct": e.what, "class": e.class, "doc": e.doc})).collect::<Vec<_>>()}));
        }
        if let Some(p0) = problems.first() {
            let sig = if p0.contains("documentation None") { "doc-lost" } else if p0.contains("expected None") { "doc-attached-to-wrong-construct" } else { "doc-text-differs" };
            st.violate("documents", i, sig, p0.chars().take(600).collect(), json!({"text": text, "problems": problems}));
        }
    });
    finish(
        ctx,
        stats,
        Meta {
            rule: "generated documents x every documentable construct (item, method, const, field, enum element, argument) x situation {no comment, ordinary comment(s) only, doc comment, doc comment followed by ordinary block/line comments, two doc comments, doc comment trailing the previous line, doc comment belonging to the previous member on the same / previous line} x doc texts built from 1-3 paragraphs of 1-3 lines of single-space-separated words and @tag clauses over ASCII, accented, CJK and emoji alphabets, 4 decoration styles, LF and CRLF; expected text computed from the doc model only (lines joined by a space, newline before each @tag and between paragraphs); distinct by text hash, non-trivial if at least one construct carries a doc comment".into(),
            assumptions: vec![
                "domain as stated by the property: trivia between a doc comment and its construct is ASCII whitespace and ordinary comments without '/' or '*'; doc words contain no '@', '*' or '/'; paragraphs are one blank decorated line apart".into(),
                "values and annotation parameters are kept free of '/' and '*' (the back-scan works on raw text)".into(),
                "an empty doc comment (`/** */`, `/***/`) is expected as Some(\"\")".into(),
            ],
            exhaustive: false,
            extra: Default::default(),
            min_nontrivial: 50,
        },
    )
}
