//! C04 — every reported source range is exact, well-formed and properly nested.

use crate::astx::{self, ANode};
use crate::c02::styles_for;
use crate::gen::{self, GenCfg};
use crate::libx::{self, One};
use crate::prng::hash_str;
use crate::ranges::{self, RangeReport};
use crate::runner::*;
use crate::syncases;
use crate::synx;
use aidl_parser::ast;
use aidl_parser::diagnostic::Diagnostic;
use serde_json::json;
use std::collections::HashSet;
use std::time::Duration;

fn collect_ranges(n: &ANode, out: &mut HashSet<(usize, usize)>) {
    out.insert((n.full.start.offset, n.full.end.offset));
    out.insert((n.name.start.offset, n.name.end.offset));
    for r in [n.oneway_range, n.code_range, n.dir_range].into_iter().flatten() {
        out.insert((r.start.offset, r.end.offset));
    }
    if n.role == gen::Role::Arg {
        if let Some(a) = n.arg {
            let s = a.arg_type.symbol_range.start.offset;
            out.insert((s, s));
        }
    }
    for c in &n.children {
        collect_ranges(c, out);
    }
}

/// diagnostics added by validation (multiset difference valid - stage)
pub fn validation_diags(one: &One) -> Vec<Diagnostic> {
    let mut rest: Vec<Diagnostic> = one.valid.diagnostics.clone();
    for d in &one.stage.diagnostics {
        if let Some(i) = rest.iter().position(|x| x == d) {
            rest.remove(i);
        }
    }
    rest
}

fn check_validation_diag_ranges(rep: &mut RangeReport, a: &ast::Aidl, one: &One) -> u64 {
    let mut set = HashSet::new();
    for n in astx::top_nodes(a) {
        collect_ranges(&n, &mut set);
    }
    let vd = validation_diags(one);
    for d in &vd {
        if !set.contains(&(d.range.start.offset, d.range.end.offset)) {
            rep.problems.push(format!("validation diagnostic {} does not sit on the range of any node of the tree", libx::diag_brief(d)));
        }
        for ri in &d.related_infos {
            if !set.contains(&(ri.range.start.offset, ri.range.end.offset)) {
                rep.problems.push(format!("related information of {} at [{}..{}] does not sit on the range of any node", libx::diag_brief(d), ri.range.start.offset, ri.range.end.offset));
            }
        }
    }
    vd.len() as u64
}

fn generic_checks(rep: &mut RangeReport, text: &str, one: &One) {
    for res in [&one.stage, &one.valid] {
        if let Some(a) = &res.ast {
            ranges::check_tree_generic(rep, text, a);
        }
        ranges::check_diagnostics_generic(rep, text, &res.diagnostics);
    }
    if let Some(a) = &one.valid.ast {
        check_validation_diag_ranges(rep, a, one);
    }
}

fn account(st: &mut Stats, rep: &RangeReport) {
    st.add("ranges_checked", rep.ranges_checked);
    st.add("exact_comparisons", rep.exact_checked);
    st.add("ranges_on_lines_with_multibyte_or_cluster_prefix", rep.complex_lines);
    st.add("multi_line_ranges", rep.multiline_ranges);
}

fn signature_of(problem: &str) -> &'static str {
    if problem.contains("transact") && problem.contains("syntax diagnostic") {
        "transact-code-diagnostic-range"
    } else if problem.contains("line/col") {
        "line-col-mismatch"
    } else if problem.contains("character boundary") {
        "off-char-boundary"
    } else if problem.contains("first syntax error") {
        "first-error-not-on-offending-token"
    } else if problem.contains("syntax diagnostic") {
        "syntax-diagnostic-not-on-token"
    } else if problem.contains("validation diagnostic") || problem.contains("related information") {
        "validation-diagnostic-off-node"
    } else if problem.contains("expected start in") {
        "inexact-range"
    } else {
        "range-nesting"
    }
}

fn malformed_case(stage: &str, i: u64, label: &str, text: &str, st: &mut Stats) {
    let r = synx::reference(text);
    st.case(hash_str(text), !r.lex.toks.is_empty());
    st.inc(&format!("{stage}.{label}"));
    let one = match libx::parse_one(text) {
        Ok(o) => o,
        Err(p) => {
            st.violate(stage, i, "panic", format!("library panicked: {p}"), json!({"text": text, "panic": p}));
            return;
        }
    };
    let mut rep = RangeReport::new();
    generic_checks(&mut rep, text, &one);
    let syn = synx::check_c04_syntax(text, &r, &one);
    st.add("syntax_diagnostics_checked", one.stage.diagnostics.len() as u64);
    if !one.records.is_empty() {
        st.inc("first_error_positions_compared");
        if r.lex.invalid_at.is_some() {
            st.inc("first_error_cases_with_unlexable_char");
        }
    }
    rep.problems.extend(syn);
    account(st, &rep);
    if st.want_sample() && one.stage.diagnostics.len() > 1 {
        st.sample(json!({"stage": stage, "text": text, "diagnostics": libx::diags_brief(&one.stage.diagnostics)}));
    }
    if let Some(p0) = rep.problems.first() {
        st.violate(stage, i, signature_of(p0), p0.chars().take(500).collect(), json!({"text": text, "label": label, "problems": rep.problems, "diagnostics": libx::diags_brief(&one.valid.diagnostics)}));
    }
}

pub const DIRECTED: &[&str] = &[
    "package p; interface I { void f() =9999999999; }",
    "package p; interface I { void f() = 9999999999; }",
    "package p; interface I { void f() =\u{a0}9999999999; }",
    "package p; interface I { void f() =   99999999999999999999 ; void g(); }",
    "package p; interface I { void f() =/*é*/4294967296; }",
    "package p;\r\n/**é*/ interface I {\r\n  void f(in Foo x);\r\n}\r\n",
    "package p; interface I { void f() = 4294967296\n; }",
    "\u{feff}package p; interface I { const String S = \"€\"; void f(); }",
    "\u{feff}\npackage p;\nenum E { A, B }\n",
];

pub fn run(ctx: &Ctx) -> i32 {
    let mut stats = Stats::default();
    // regression witnesses
    stats.merge(par_cases(ctx, "directed", DIRECTED.len() as u64, Duration::from_secs(30), |i, _rng, st| {
        malformed_case("directed", i, "witness", DIRECTED[i as usize], st);
    }));
    // exact expectations on generated documents x layouts
    let n_docs = ctx.tier.pick(8_000u64, 150_000);
    let k_layouts = ctx.tier.pick(4usize, 10);
    stats.merge(par_cases(ctx, "exact", n_docs, Duration::from_secs(ctx.tier.pick(60, 900)), |i, rng, st| {
        let cfg = GenCfg { max_members: 5, big: true, deep_types: true, repeat_method_names: true, allow_overflow_codes: true, ..GenCfg::default() };
        let d = gen::doc(rng, &cfg);
        let r = gen::render(&d);
        for style in styles_for(k_layouts) {
            let mut lrng = rng.fork();
            let laid = gen::layout(&r.toks, &mut lrng, style, &r.forced);
            assert!(gen::layout_is_faithful(&r.toks, &laid));
            st.case(hash_str(&laid.text), !d.item.members.is_empty());
            let one = match libx::parse_one(&laid.text) {
                Ok(o) => o,
                Err(p) => {
                    st.violate("exact", i, "panic", format!("library panicked: {p}"), json!({"text": laid.text, "panic": p}));
                    continue;
                }
            };
            let mut rep = RangeReport::new();
            generic_checks(&mut rep, &laid.text, &one);
            // overflowing transact codes (the only syntax-stage diagnostic a well-formed document can get) must sit on the number
            if !one.stage.diagnostics.is_empty() {
                st.inc("exact.documents_with_overflowing_transact_codes");
                let r_syn = synx::reference(&laid.text);
                rep.problems.extend(synx::check_c04_syntax(&laid.text, &r_syn, &one));
            }
            for (what, res) in [("parse-stage", &one.stage), ("validated", &one.valid)] {
                match &res.ast {
                    Some(a) => {
                        let before = rep.problems.len();
                        ranges::check_tree_exact(&mut rep, &laid, a, &r.exp);
                        for p in rep.problems[before..].iter_mut() {
                            *p = format!("{what} tree: {p}");
                        }
                    }
                    None => rep.problems.push(format!("{what}: no tree for a well-formed document")),
                }
            }
            st.add("validation_diagnostics_on_node_ranges", synx_count(&one));
            account(st, &rep);
            if st.want_sample() && rep.multiline_ranges > 3 {
                st.sample(json!({"stage": "exact", "text": laid.text, "style": format!("{style:?}")}));
            }
            if let Some(p0) = rep.problems.first() {
                st.violate("exact", i, signature_of(p0), p0.chars().take(500).collect(), json!({"text": laid.text, "layout": format!("{style:?}"), "problems": rep.problems}));
            }
        }
    }));
    // malformed inputs: well-formedness of everything that comes out + syntax diagnostic exactness
    let frames: Vec<usize> = (0..crate::mutate::FRAMES.len()).collect();
    let slot_len = 2;
    let n_slots = syncases::slot_space(&frames, slot_len);
    let stride = ctx.tier.pick(3u64, 1);
    stats.merge(par_cases(ctx, "malformed_slots", n_slots / stride, Duration::from_secs(ctx.tier.pick(40, 300)), |i, rng, st| {
        if let Some((label, text)) = syncases::slot_case(i * stride + (ctx.seed % stride), &frames, slot_len, rng) {
            malformed_case("malformed_slots", i, &label, &text, st);
        }
    }));
    stats.merge(par_cases(ctx, "malformed_mutations", ctx.tier.pick(15_000u64, 400_000), Duration::from_secs(ctx.tier.pick(40, 600)), |i, rng, st| {
        let (label, text) = syncases::mutation_case(rng);
        malformed_case("malformed_mutations", i, &label, &text, st);
    }));
    stats.merge(par_cases(ctx, "malformed_lexical", syncases::lexical_directed_count() + ctx.tier.pick(5_000u64, 150_000), Duration::from_secs(ctx.tier.pick(30, 300)), |i, rng, st| {
        let (label, text) = syncases::lexical_case(i, rng);
        malformed_case("malformed_lexical", i, &label, &text, st);
    }));

    finish(
        ctx,
        stats,
        Meta {
            rule: "stage exact: generated documents x layouts (multi-byte text, CRLF, Unicode whitespace, comments before/inside/after every construct), every name/full range compared with the generator's token table; stages malformed_*: slot substitutions, mutated documents and lexical cases, every range in trees/diagnostics/related-info checked for well-formedness, nesting and line/column agreement, syntax diagnostics compared with R-lex token spans and the first error with R-earley's first offending token; distinct by text hash, non-trivial if the text has members (exact) / at least one token (malformed)".into(),
            assumptions: vec![
                "line = 1 + number of '\\n' before the offset; column = 1 + grapheme clusters since the line start, computed by character count on lines whose characters are all single-cluster and with unicode-segmentation otherwise".into(),
                "absent oneway / transact-code / argument-name ranges: only well-formedness is required (the property defines no extent for them)".into(),
                "full range start may lie anywhere in the trivia that follows the construct's annotations; full range end may include the terminating ';'".into(),
                "when an unlexable character follows the first syntax error, lalrpop's recovery may run into it and report only that character (accepted as first error)".into(),
            ],
            exhaustive: false,
            extra: Default::default(),
            min_nontrivial: 100,
        },
    )
}

fn synx_count(one: &One) -> u64 {
    validation_diags(one).len() as u64
}
