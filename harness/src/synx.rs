//! Syntax reference: R-lex + R-earley verdict on a text, and the C03 / C04
//! oracles over the library's parse-stage output.

use crate::earley::{self, Grammar, Outcome};
use crate::libx::{self, One};
use crate::reflex::{self, LexResult, K};
use aidl_parser::ast;
use aidl_parser::diagnostic::Diagnostic;
use std::sync::OnceLock;

pub fn grammar() -> &'static Grammar {
    static G: OnceLock<Grammar> = OnceLock::new();
    G.get_or_init(|| earley::build(earley::AIDL_BNF))
}

pub struct SynRef {
    pub lex: LexResult,
    pub kinds: Vec<K>,
    pub out: Outcome,
    /// every method transact code fits u32
    pub code_ok: bool,
    /// overflowing integer tokens in transact-code position (`) = INTEGER`)
    pub overflow_codes: Vec<(usize, usize)>,
    pub ref_ok: bool,
}

pub fn reference(text: &str) -> SynRef {
    let g = grammar();
    let lex = reflex::lex(text);
    let kinds: Vec<K> = lex.toks.iter().map(|t| t.kind).collect();
    let out = earley::recognize(g, g.nt("Aidl"), &kinds);
    let mut overflow_codes = Vec::new();
    for w in lex.toks.windows(3) {
        if w[0].kind == K::RParen && w[1].kind == K::Eq && w[2].kind == K::Integer && text[w[2].start..w[2].end].parse::<u32>().is_err() {
            overflow_codes.push((w[2].start, w[2].end));
        }
    }
    let code_ok = overflow_codes.is_empty();
    let ref_ok = lex.invalid_at.is_none() && out.accepted && code_ok;
    SynRef { lex, kinds, out, code_ok, overflow_codes, ref_ok }
}

/// All user-chosen identifiers stored in a tree, with a description of where.
pub fn stored_names(a: &ast::Aidl) -> Vec<(String, String)> {
    let mut v: Vec<(String, String)> = Vec::new();
    for s in a.package.name.split('.') {
        v.push(("package segment".into(), s.to_string()));
    }
    for i in a.imports.iter() {
        for s in i.path.split('.') {
            v.push(("import segment".into(), s.to_string()));
        }
        v.push(("import name".into(), i.name.clone()));
    }
    for i in a.declared_parcelables.iter() {
        if !i.path.is_empty() {
            for s in i.path.split('.') {
                v.push(("declared parcelable segment".into(), s.to_string()));
            }
        }
        v.push(("declared parcelable name".into(), i.name.clone()));
    }
    fn anns(v: &mut Vec<(String, String)>, a: &[ast::Annotation]) {
        for an in a {
            for k in an.key_values.keys() {
                v.push(("annotation parameter".into(), k.clone()));
            }
        }
    }
    fn ty(v: &mut Vec<(String, String)>, t: &ast::Type) {
        match t.kind {
            ast::TypeKind::Unresolved | ast::TypeKind::ResolvedItem(..) | ast::TypeKind::AndroidType(_) => {
                for s in t.name.split('.') {
                    v.push(("type name segment".into(), s.to_string()));
                }
            }
            _ => {}
        }
        for g in &t.generic_types {
            ty(v, g);
        }
    }
    fn konst(v: &mut Vec<(String, String)>, c: &ast::Const) {
        v.push(("const name".into(), c.name.clone()));
        anns(v, &c.annotations);
        ty(v, &c.const_type);
    }
    match &a.item {
        ast::Item::Interface(i) => {
            v.push(("interface name".into(), i.name.clone()));
            anns(&mut v, &i.annotations);
            for e in &i.elements {
                match e {
                    ast::InterfaceElement::Method(m) => {
                        v.push(("method name".into(), m.name.clone()));
                        anns(&mut v, &m.annotations);
                        ty(&mut v, &m.return_type);
                        for arg in &m.args {
                            if let Some(n) = &arg.name {
                                v.push(("argument name".into(), n.clone()));
                            }
                            anns(&mut v, &arg.annotations);
                            ty(&mut v, &arg.arg_type);
                        }
                    }
                    ast::InterfaceElement::Const(c) => konst(&mut v, c),
                }
            }
        }
        ast::Item::Parcelable(p) => {
            v.push(("parcelable name".into(), p.name.clone()));
            anns(&mut v, &p.annotations);
            for e in &p.elements {
                match e {
                    ast::ParcelableElement::Field(f) => {
                        v.push(("field name".into(), f.name.clone()));
                        anns(&mut v, &f.annotations);
                        ty(&mut v, &f.field_type);
                    }
                    ast::ParcelableElement::Const(c) => konst(&mut v, c),
                }
            }
        }
        ast::Item::Enum(e) => {
            v.push(("enum name".into(), e.name.clone()));
            anns(&mut v, &e.annotations);
            for el in &e.elements {
                v.push(("enum element name".into(), el.name.clone()));
            }
        }
    }
    v
}

fn multiset_missing(small: &[Diagnostic], big: &[Diagnostic]) -> Option<Diagnostic> {
    let mut used = vec![false; big.len()];
    'outer: for d in small {
        for (i, b) in big.iter().enumerate() {
            if !used[i] && b == d {
                used[i] = true;
                continue 'outer;
            }
        }
        return Some(d.clone());
    }
    None
}

/// C03 oracle. Returns (signature, message) per problem.
pub fn check_c03(r: &SynRef, one: &One) -> Vec<(&'static str, String)> {
    let mut p = Vec::new();
    let lib_ok = one.stage.ast.is_some() && one.stage.diagnostics.is_empty();
    if r.ref_ok && !lib_ok {
        p.push((
            "wellformed-rejected",
            format!("reference grammar accepts the document but the library reports {:?} (tree: {})", libx::diags_brief(&one.stage.diagnostics), one.stage.ast.is_some()),
        ));
    }
    if !r.ref_ok && lib_ok {
        p.push(("malformed-accepted", format!("reference grammar rejects the document (first bad token #{:?}, unlexable at {:?}, codes ok: {}) but the library reports no syntax problem", r.out.error_at, r.lex.invalid_at, r.code_ok)));
    }
    if !r.ref_ok && !one.stage.diagnostics.iter().any(libx::is_error) {
        p.push(("malformed-no-error", "malformed document without any Error diagnostic at the parse stage".to_string()));
    }
    if !r.ref_ok && !one.valid.diagnostics.iter().any(libx::is_error) {
        p.push(("malformed-no-error-after-validation", "malformed document without any Error diagnostic after validation".to_string()));
    }
    if let Some(d) = multiset_missing(&one.stage.diagnostics, &one.valid.diagnostics) {
        p.push(("diagnostic-dropped", format!("validation dropped a syntax diagnostic: {}", libx::diag_brief(&d))));
    }
    for (what, res) in [("parse stage", &one.stage), ("validated", &one.valid)] {
        if res.ast.is_none() && !res.diagnostics.iter().any(libx::is_error) {
            p.push(("no-tree-no-error", format!("{what}: no tree and no Error diagnostic")));
        }
        if let Some(a) = &res.ast {
            for (place, name) in stored_names(a) {
                if reflex::word_kind_pub(&name) != K::Ident || name.is_empty() {
                    p.push(("keyword-as-name", format!("{what}: {place} is the keyword/reserved word {name:?}")));
                }
            }
        }
    }
    if one.stage.ast.is_some() != one.valid.ast.is_some() {
        p.push(("tree-presence-changed", "validation changed whether the file has a tree".to_string()));
    }
    p
}

/// C04 oracle for syntax diagnostics: first error covers the first offending token; every syntax
/// diagnostic covers a token, the unlexable position or the end-of-input position.
pub fn check_c04_syntax(text: &str, r: &SynRef, one: &One) -> Vec<String> {
    let mut p = Vec::new();
    let eof_pos = r.lex.toks.last().map(|t| t.end).unwrap_or(0);
    let is_token_span = |s: usize, e: usize| r.lex.toks.iter().any(|t| t.start == s && t.end == e);
    for d in &one.stage.diagnostics {
        let (s, e) = (d.range.start.offset, d.range.end.offset);
        let ok = if d.message.starts_with("Invalid method transact code") {
            r.overflow_codes.contains(&(s, e))
        } else {
            is_token_span(s, e) || (s == e && (Some(s) == r.lex.invalid_at || (r.lex.invalid_at.is_none() && s == eof_pos)))
        };
        if !ok {
            p.push(format!(
                "syntax diagnostic {} covers neither a token, nor the unlexable position {:?}, nor the end-of-input position {}",
                libx::diag_brief(d),
                r.lex.invalid_at,
                eof_pos
            ));
        }
    }
    // the parser's own first error (H2) must be the first token the grammar cannot accept
    if let Some(first) = one.records.first() {
        let expected: Option<(usize, usize)> = match r.out.error_at {
            Some(i) if i < r.lex.toks.len() => Some((r.lex.toks[i].start, r.lex.toks[i].end)),
            Some(_) => match r.lex.invalid_at {
                Some(pz) => Some((pz, pz)),
                None => Some((eof_pos, eof_pos)),
            },
            None => r.lex.invalid_at.map(|pz| (pz, pz)),
        };
        match expected {
            None => p.push(format!("the parser reported a syntax error at [{}..{}] in a document the reference accepts", first.start, first.end)),
            Some(e) => {
                let got = (first.start, first.end);
                let pre_empted = r.lex.invalid_at.map_or(false, |pz| got == (pz, pz));
                if got != e && !pre_empted {
                    p.push(format!(
                        "first syntax error reported at [{}..{}] ({}), but the first token the grammar cannot accept is {:?} at [{}..{}]",
                        got.0,
                        got.1,
                        first.variant,
                        text.get(e.0..e.1).unwrap_or(""),
                        e.0,
                        e.1
                    ));
                }
            }
        }
    } else if !(r.lex.invalid_at.is_none() && r.out.accepted) {
        p.push("the reference rejects the document but the parser recorded no syntax error".to_string());
    }
    p
}
