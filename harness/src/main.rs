//! Runtime-monitoring harness for aidl-parser. Usage:
//!   harness <ID> --tier quick|thorough --seed N [--replay file] [--verbose]

mod astx;
mod c01;
mod c02;
mod c03;
mod c04;
mod c11;
mod c12;
mod c14;
mod c15;
mod c17;
mod c18;
mod c19;
mod rwalk;
mod c20;
mod cval;
mod proj;
mod rval;
mod earley;
mod gen;
mod libx;
mod model;
mod mutate;
mod prng;
mod ranges;
mod reflex;
mod runner;
mod syncases;
mod synx;
mod vocab;

use runner::{Ctx, Tier};
use std::time::Instant;

fn main() {
    let args: Vec<String> = std::env::args().collect();
    if args.len() < 2 {
        eprintln!("usage: harness <ID> --tier quick|thorough --seed N [--replay file]");
        std::process::exit(2);
    }
    let id = args[1].clone();
    if id == "vocab" {
        let v = vocab::get();
        println!("idents {} dotted {} numbers {} thresholds {} words {} chars {}", v.idents.len(), v.dotted.len(), v.numbers.len(), v.thresholds.len(), v.words.len(), v.chars.len());
        println!("dotted: {:?}\nnumbers: {:?}\nchars: {:?}\nidents: {:?}", v.dotted, v.numbers, v.chars, v.idents);
        std::process::exit(0);
    }
    if id == "C11-worker" {
        std::process::exit(c11::worker_main());
    }
    if id == "C01-worker" {
        runner::install_quiet_panic_hook();
        std::process::exit(c01::worker_main(&args[2..]));
    }
    let mut tier = Tier::Quick;
    let mut seed: u64 = std::env::var("VERIF_SEED").ok().and_then(|s| s.parse().ok()).unwrap_or(1);
    let mut replay_path: Option<String> = None;
    let mut verbose = false;
    let mut i = 2;
    while i < args.len() {
        match args[i].as_str() {
            "--tier" => {
                i += 1;
                tier = match args.get(i).map(|s| s.as_str()) {
                    Some("thorough") => Tier::Thorough,
                    _ => Tier::Quick,
                };
            }
            "--seed" => {
                i += 1;
                seed = args.get(i).and_then(|s| s.parse().ok()).unwrap_or(seed);
            }
            "--replay" => {
                i += 1;
                replay_path = args.get(i).cloned();
            }
            "--verbose" => verbose = true,
            _ => {}
        }
        i += 1;
    }
    let mut replay = None;
    if let Some(p) = &replay_path {
        let txt = std::fs::read_to_string(p).unwrap_or_else(|e| {
            eprintln!("cannot read replay file {p}: {e}");
            std::process::exit(2);
        });
        let v: serde_json::Value = serde_json::from_str(&txt).unwrap_or_else(|e| {
            eprintln!("replay file {p} is not JSON: {e}");
            std::process::exit(2);
        });
        let stage = v["stage"].as_str().unwrap_or("").to_string();
        let case = v["case"].as_u64().unwrap_or(0);
        seed = v["seed"].as_u64().unwrap_or(seed);
        tier = if v["tier"].as_str() == Some("thorough") { Tier::Thorough } else { Tier::Quick };
        replay = Some((stage, case));
        verbose = true;
    }
    let threads = std::env::var("VERIF_THREADS")
        .ok()
        .and_then(|s| s.parse().ok())
        .unwrap_or_else(|| std::thread::available_parallelism().map(|n| n.get()).unwrap_or(4));
    runner::install_quiet_panic_hook();
    runner::init_known(&id);
    let ctx = Ctx { id: id.clone(), tier, seed, replay, start: Instant::now(), threads, verbose };
    let code = match id.as_str() {
        "C01" => c01::run(&ctx),
        "C02" => c02::run(&ctx),
        "C03" => c03::run(&ctx),
        "C04" => c04::run(&ctx),
        "C05" => cval::run_c05(&ctx),
        "C06" => cval::run_c06(&ctx),
        "C07" => cval::run_c07(&ctx),
        "C08" => cval::run_c08(&ctx),
        "C09" => cval::run_c09(&ctx),
        "C10" => cval::run_c10(&ctx),
        "C11" => c11::run(&ctx),
        "C12" => c12::run_c12(&ctx),
        "C13" => c12::run_c13(&ctx),
        "C14" => c14::run(&ctx),
        "C15" => c15::run_c15(&ctx),
        "C16" => c15::run_c16(&ctx),
        "C17" => c17::run(&ctx),
        "C18" => c18::run(&ctx),
        "C19" => c19::run(&ctx),
        "C20" => c20::run(&ctx),
        _ => {
            eprintln!("unknown property id {id}");
            2
        }
    };
    std::process::exit(code);
}
