//! Deterministic PRNG (splitmix64). Every case derives its own stream from
//! (seed, stage name, case index), so a case can be regenerated for replay
//! and threads never share state.

#[derive(Clone, Debug)]
pub struct Rng(pub u64);

fn mix(mut z: u64) -> u64 {
    z = z.wrapping_add(0x9E37_79B9_7F4A_7C15);
    z = (z ^ (z >> 30)).wrapping_mul(0xBF58_476D_1CE4_E5B9);
    z = (z ^ (z >> 27)).wrapping_mul(0x94D0_49BB_1331_11EB);
    z ^ (z >> 31)
}

pub fn hash_str(s: &str) -> u64 {
    let mut h: u64 = 0xcbf2_9ce4_8422_2325;
    for b in s.bytes() {
        h ^= b as u64;
        h = h.wrapping_mul(0x1000_0000_01b3);
    }
    mix(h)
}

pub fn hash_bytes(s: &[u8]) -> u64 {
    let mut h: u64 = 0xcbf2_9ce4_8422_2325;
    for b in s {
        h ^= *b as u64;
        h = h.wrapping_mul(0x1000_0000_01b3);
    }
    mix(h)
}

impl Rng {
    pub fn new(seed: u64) -> Self {
        Rng(mix(seed ^ 0xA5A5_5A5A_1234_5678))
    }

    pub fn for_case(seed: u64, stage: &str, idx: u64) -> Self {
        Rng(mix(mix(seed).wrapping_add(hash_str(stage)) ^ mix(idx.wrapping_mul(0x2545_F491_4F6C_DD1D))))
    }

    pub fn next_u64(&mut self) -> u64 {
        self.0 = self.0.wrapping_add(0x9E37_79B9_7F4A_7C15);
        let mut z = self.0;
        z = (z ^ (z >> 30)).wrapping_mul(0xBF58_476D_1CE4_E5B9);
        z = (z ^ (z >> 27)).wrapping_mul(0x94D0_49BB_1331_11EB);
        z ^ (z >> 31)
    }

    /// uniform in 0..n (n > 0)
    pub fn below(&mut self, n: usize) -> usize {
        debug_assert!(n > 0);
        (self.next_u64() % (n as u64)) as usize
    }

    /// inclusive range
    pub fn range(&mut self, lo: usize, hi: usize) -> usize {
        lo + self.below(hi - lo + 1)
    }

    /// true with probability num/den
    pub fn chance(&mut self, num: usize, den: usize) -> bool {
        self.below(den) < num
    }

    pub fn pick<'a, T>(&mut self, v: &'a [T]) -> &'a T {
        &v[self.below(v.len())]
    }

    pub fn pick_str<'a>(&mut self, v: &[&'a str]) -> &'a str {
        v[self.below(v.len())]
    }

    pub fn shuffle<T>(&mut self, v: &mut [T]) {
        for i in (1..v.len()).rev() {
            let j = self.below(i + 1);
            v.swap(i, j);
        }
    }

    pub fn fork(&mut self) -> Rng {
        Rng(mix(self.next_u64()))
    }
}
