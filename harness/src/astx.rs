//! Helpers over the library's AST: a generic range tree, type iteration,
//! line/column oracle.

use crate::gen::Role;
use aidl_parser::ast;
use unicode_segmentation::UnicodeSegmentation;

/// Generic view of an AST node for range checks.
pub struct ANode<'a> {
    pub role: Role,
    pub full: &'a ast::Range,
    pub name: &'a ast::Range,
    pub children: Vec<ANode<'a>>,
    /// method: oneway_range, transact_code_range; arg: direction range
    pub oneway_range: Option<&'a ast::Range>,
    pub code_range: Option<&'a ast::Range>,
    pub dir_range: Option<&'a ast::Range>,
    pub ty: Option<&'a ast::Type>,
    pub method: Option<&'a ast::Method>,
    pub arg: Option<&'a ast::Arg>,
}

fn node<'a>(role: Role, full: &'a ast::Range, name: &'a ast::Range) -> ANode<'a> {
    ANode { role, full, name, children: vec![], oneway_range: None, code_range: None, dir_range: None, ty: None, method: None, arg: None }
}

pub fn type_node(t: &ast::Type) -> ANode<'_> {
    let mut n = node(Role::Type, &t.full_range, &t.symbol_range);
    n.ty = Some(t);
    n.children = t.generic_types.iter().map(type_node).collect();
    n
}

fn const_node(c: &ast::Const) -> ANode<'_> {
    let mut n = node(Role::Const, &c.full_range, &c.symbol_range);
    n.children.push(type_node(&c.const_type));
    n
}

pub fn method_node(m: &ast::Method) -> ANode<'_> {
    let mut n = node(Role::Method, &m.full_range, &m.symbol_range);
    n.oneway_range = Some(&m.oneway_range);
    n.code_range = Some(&m.transact_code_range);
    n.method = Some(m);
    n.children.push(type_node(&m.return_type));
    for a in &m.args {
        let mut an = node(Role::Arg, &a.full_range, &a.symbol_range);
        an.arg = Some(a);
        an.dir_range = match &a.direction {
            ast::Direction::In(r) | ast::Direction::Out(r) | ast::Direction::InOut(r) => Some(r),
            ast::Direction::Unspecified => None,
        };
        an.children.push(type_node(&a.arg_type));
        n.children.push(an);
    }
    n
}

pub fn item_node(item: &ast::Item) -> ANode<'_> {
    match item {
        ast::Item::Interface(i) => {
            let mut n = node(Role::Interface, &i.full_range, &i.symbol_range);
            for e in &i.elements {
                n.children.push(match e {
                    ast::InterfaceElement::Method(m) => method_node(m),
                    ast::InterfaceElement::Const(c) => const_node(c),
                });
            }
            n
        }
        ast::Item::Parcelable(p) => {
            let mut n = node(Role::Parcelable, &p.full_range, &p.symbol_range);
            for e in &p.elements {
                n.children.push(match e {
                    ast::ParcelableElement::Field(f) => {
                        let mut fnode = node(Role::Field, &f.full_range, &f.symbol_range);
                        fnode.children.push(type_node(&f.field_type));
                        fnode
                    }
                    ast::ParcelableElement::Const(c) => const_node(c),
                });
            }
            n
        }
        ast::Item::Enum(e) => {
            let mut n = node(Role::Enum, &e.full_range, &e.symbol_range);
            for el in &e.elements {
                n.children.push(node(Role::EnumElem, &el.full_range, &el.symbol_range));
            }
            n
        }
    }
}

/// top-level nodes in source order: package, imports, declared parcelables, item
pub fn top_nodes(a: &ast::Aidl) -> Vec<ANode<'_>> {
    let mut v = Vec::new();
    v.push(node(Role::Package, &a.package.full_range, &a.package.symbol_range));
    for i in &a.imports {
        v.push(node(Role::Import, &i.full_range, &i.symbol_range));
    }
    for i in &a.declared_parcelables {
        v.push(node(Role::Declared, &i.full_range, &i.symbol_range));
    }
    v.push(item_node(&a.item));
    v
}

/// every type node of the tree (any depth), pre-order, with its nesting depth and a placement tag
pub fn all_types(a: &ast::Aidl) -> Vec<(&ast::Type, usize, &'static str)> {
    fn rec<'a>(t: &'a ast::Type, d: usize, place: &'static str, out: &mut Vec<(&'a ast::Type, usize, &'static str)>) {
        out.push((t, d, place));
        for g in &t.generic_types {
            rec(g, d + 1, place, out);
        }
    }
    let mut out = Vec::new();
    match &a.item {
        ast::Item::Interface(i) => {
            for e in &i.elements {
                match e {
                    ast::InterfaceElement::Method(m) => {
                        rec(&m.return_type, 0, "return", &mut out);
                        for arg in &m.args {
                            rec(&arg.arg_type, 0, "arg", &mut out);
                        }
                    }
                    ast::InterfaceElement::Const(c) => rec(&c.const_type, 0, "const", &mut out),
                }
            }
        }
        ast::Item::Parcelable(p) => {
            for e in &p.elements {
                match e {
                    ast::ParcelableElement::Field(f) => rec(&f.field_type, 0, "field", &mut out),
                    ast::ParcelableElement::Const(c) => rec(&c.const_type, 0, "const", &mut out),
                }
            }
        }
        ast::Item::Enum(_) => {}
    }
    out
}

pub fn methods(a: &ast::Aidl) -> Vec<&ast::Method> {
    match &a.item {
        ast::Item::Interface(i) => i.elements.iter().filter_map(|e| e.as_method()).collect(),
        _ => vec![],
    }
}

// ---------------------------------------------------------------------------
// Line / column oracle

pub struct LineIndex<'a> {
    pub text: &'a str,
    line_starts: Vec<usize>,
}

fn simple_char(c: char) -> bool {
    match c {
        '\r' => false,
        '\t' | '\n' | ' '..='~' => true,
        '\u{b}' | '\u{c}' => true,
        '\u{85}' | '\u{a0}' => true,
        '\u{c0}'..='\u{ff}' => true,
        '\u{1680}' | '\u{2000}'..='\u{200a}' | '\u{2028}' | '\u{2029}' | '\u{202f}' | '\u{205f}' | '\u{3000}' => true,
        '\u{4e00}'..='\u{9fff}' => true,
        _ => false,
    }
}

impl<'a> LineIndex<'a> {
    pub fn new(text: &'a str) -> Self {
        let mut line_starts = vec![0];
        for (i, b) in text.bytes().enumerate() {
            if b == b'\n' {
                line_starts.push(i + 1);
            }
        }
        LineIndex { text, line_starts }
    }

    /// Expected 1-based (line, column-in-grapheme-clusters) of a byte offset on a char boundary.
    /// Returns also whether the independent char-count method was applicable (line prefix "simple").
    pub fn line_col(&self, offset: usize) -> ((usize, usize), bool) {
        let line = match self.line_starts.binary_search(&offset) {
            Ok(i) => i,
            Err(i) => i - 1,
        };
        let start = self.line_starts[line];
        let prefix = &self.text[start..offset];
        if prefix.chars().all(simple_char) {
            ((line + 1, prefix.chars().count() + 1), true)
        } else {
            ((line + 1, prefix.graphemes(true).count() + 1), false)
        }
    }

    pub fn n_lines(&self) -> usize {
        self.line_starts.len()
    }

    pub fn line_start(&self, line0: usize) -> usize {
        self.line_starts[line0]
    }
}

/// Well-formedness of one reported range against the text; Err(reason) if broken.
pub fn range_wf(idx: &LineIndex, r: &ast::Range) -> Result<(), String> {
    let n = idx.text.len();
    for (what, p) in [("start", &r.start), ("end", &r.end)] {
        if p.offset > n {
            return Err(format!("{what} offset {} beyond file length {}", p.offset, n));
        }
        if !idx.text.is_char_boundary(p.offset) {
            return Err(format!("{what} offset {} not on a character boundary", p.offset));
        }
        let (lc, _) = idx.line_col(p.offset);
        if lc != p.line_col {
            return Err(format!("{what} offset {} reported at line/col {:?}, expected {:?}", p.offset, p.line_col, lc));
        }
    }
    if r.start.offset > r.end.offset {
        return Err(format!("start {} > end {}", r.start.offset, r.end.offset));
    }
    Ok(())
}

pub fn fmt_range(r: &ast::Range) -> String {
    format!("[{}..{} {}:{}-{}:{}]", r.start.offset, r.end.offset, r.start.line_col.0, r.start.line_col.1, r.end.line_col.0, r.end.line_col.1)
}

pub fn contains(outer: &ast::Range, inner: &ast::Range) -> bool {
    outer.start.offset <= inner.start.offset && inner.end.offset <= outer.end.offset
}
