//! Generators of malformed / hostile input: token vocabulary, token-level
//! mutation, slot substitution frames, character soups, snippet injection.

use crate::prng::Rng;
use crate::reflex::{self, K, ALL_KINDS};

/// Token texts over the full vocabulary (plus trivia-like and broken pieces).
pub const VOCAB: &[&str] = &[
    "package", "import", "interface", "parcelable", "enum", "oneway", "const", "in", "out", "inout", "void", "int", "byte", "boolean", "String",
    "CharSequence", "List", "Map", "\"s\"", "\"é\"", "\"\"", "true", "false", "@A", "@B", "@nullable", "(", ")", "{", "}", "[", "]", "<", ">", "=", ".",
    ",", ";", "-", "x", "Foo", "a.b.C", "p", "IBinder", "12", "1.5f", "-3", "99999999999", "for", "class", "do", "007", "4294967295", "4294967296",
    "doubles", "inoutx", "_", "Listing", ".5", "+7", "1.", "12f", "Interface", "ENUM", "Parcelable", "Import", "OneWay", "Package", "Const", "TRUE", "FALSE",
    "IN", "Void", "getInterfaceVersion", "cons", "interfac", "enumm", "packag", "imprt", "onewa", "parcelabl", "Array",
    "\"Herzlich willkommen sowie die allerbesten Grüße aus München und Österreich\"", "\"aééééééééééééééééééééééééééééééééééééééééééééééééééééééé\"",
    "\"漢字漢字漢字漢字漢字漢字漢字漢字漢字漢字漢字漢字漢字漢字漢字漢字漢字漢字漢字漢字\"", "@Backing", "@SuppressWarnings",
];

/// Pieces that are not tokens of the grammar: comments, doc comments, whitespace, broken lexemes.
pub const NOISE: &[&str] = &[
    "/**é*/", "/* c */", "// lc é\n", "/**/", "/***/", "\u{a0}", "\u{2028}", "\r\n", "\n", " ", "\t", "\"", "/*", "/", "#", "@", "٣", "３", "+", "'",
    "\u{feff}", "\0", "e\u{301}", "😀", "漢", "/** doc */", "/** @param x é */", "*/", "\\", "$", "\u{85}", "\u{3000}", "\r", "\u{1a}", "\u{7f}", "\u{200b}",
    "\u{ad}", "\u{1b}",
];

pub fn representative(k: K, rng: &mut Rng) -> &'static str {
    match k {
        K::Package => "package",
        K::Import => "import",
        K::Interface => "interface",
        K::Parcelable => "parcelable",
        K::Enum => "enum",
        K::Oneway => "oneway",
        K::Const => "const",
        K::Direction => *rng.pick(&["in", "out", "inout"]),
        K::Void => "void",
        K::Primitive => *rng.pick(&["int", "byte", "double", "char"]),
        K::StringT => "String",
        K::CharSequence => "CharSequence",
        K::List => "List",
        K::Map => "Map",
        K::QuotedString => "\"s\"",
        K::Boolean => *rng.pick(&["true", "false"]),
        K::Annotation => "@A",
        K::Semi => ";",
        K::Comma => ",",
        K::LBrace => "{",
        K::RBrace => "}",
        K::LParen => "(",
        K::RParen => ")",
        K::LBracket => "[",
        K::RBracket => "]",
        K::Lt => "<",
        K::Gt => ">",
        K::Eq => "=",
        K::Dot => ".",
        K::Minus => "-",
        K::Reserved => *rng.pick(&["for", "class", "do", "while", "new"]),
        K::Ident => *rng.pick(&["x", "Foo", "y1", "_"]),
        K::Integer => *rng.pick(&["12", "0", "007"]),
        K::Float => *rng.pick(&["1.5f", "-3", ".5"]),
    }
}

/// Split a text into its tokens' texts with the reference lexer (text must lex completely).
pub fn token_texts(text: &str) -> Vec<String> {
    let lr = reflex::lex(text);
    lr.toks.iter().map(|t| text[t.start..t.end].to_string()).collect()
}

pub fn mutate_pieces(rng: &mut Rng, pieces: &mut Vec<String>, n_edits: usize, noise_num: usize, noise_den: usize) -> Vec<&'static str> {
    let mut kinds = Vec::new();
    for _ in 0..n_edits {
        let pick = |rng: &mut Rng| -> String {
            if rng.chance(noise_num, noise_den) {
                rng.pick_str(NOISE).to_string()
            } else {
                rng.pick_str(VOCAB).to_string()
            }
        };
        if pieces.is_empty() {
            let s = pick(rng);
            pieces.push(s);
            kinds.push("insert");
            continue;
        }
        let p = rng.below(pieces.len());
        match rng.below(6) {
            0 => {
                pieces.remove(p);
                kinds.push("delete");
            }
            1 | 2 => {
                let s = pick(rng);
                pieces.insert(p, s);
                kinds.push("insert");
            }
            3 => {
                pieces[p] = pick(rng);
                kinds.push("replace");
            }
            4 => {
                let q = rng.below(pieces.len());
                pieces.swap(p, q);
                kinds.push("swap");
            }
            _ => {
                let s = pieces[p].clone();
                pieces.insert(p, s);
                kinds.push("duplicate");
            }
        }
    }
    kinds
}

pub const SEPS_SIMPLE: &[&str] = &[" ", " ", " ", "  ", "\n", "\t", " /*c*/ ", "\u{a0}", "\r\n", " // c\n"];
pub const SEPS_TIGHT: &[&str] = &["", "", " ", " ", "\n", "/**/", "\u{2003}"];

pub fn join(rng: &mut Rng, pieces: &[String], seps: &[&str]) -> String {
    let mut text = String::new();
    for p in pieces {
        text.push_str(p);
        text.push_str(rng.pick_str(seps));
    }
    text
}

/// Frames for slot substitution: each frame is a list of token texts with one "<S>" slot.
pub const FRAMES: &[(&str, &str)] = &[
    ("file", "<S>"),
    ("package_name", "package <S> ; interface I { }"),
    ("header", "package p ; <S> interface I { }"),
    ("import_name", "package p ; import <S> ; interface I { }"),
    ("item", "package p ; <S>"),
    ("item_name", "package p ; interface <S> { }"),
    ("interface_members", "package p ; interface I { <S> }"),
    ("args", "package p ; interface I { void f ( <S> ) ; }"),
    ("return_type", "package p ; interface I { <S> f ( ) ; }"),
    ("transact_code", "package p ; interface I { void f ( ) <S> ; }"),
    ("const_value", "package p ; interface I { const int K = <S> ; }"),
    ("parcelable_members", "package p ; parcelable P { <S> }"),
    ("field_tail", "package p ; parcelable P { int x <S> ; }"),
    ("list_param", "package p ; parcelable P { List < <S> > x ; }"),
    ("map_params", "package p ; parcelable P { Map < <S> > x ; }"),
    ("enum_members", "package p ; enum E { <S> }"),
    ("enum_value", "package p ; enum E { A = <S> }"),
    ("annotation_params", "package p ; @A ( <S> ) interface I { }"),
    ("trailing", "package p ; interface I { } <S>"),
    ("arg_type", "package p ; interface I { void f ( in <S> x ) ; }"),
    ("declared", "package p ; parcelable <S> ; interface I { }"),
    ("method_name", "package p ; interface I { void <S> ( ) ; }"),
];

/// Decode `idx` into a sequence of token kinds of length <= max_len (0 => empty sequence). Returns None past the end.
pub fn decode_kind_seq(mut idx: u64, max_len: usize) -> Option<Vec<K>> {
    let n = ALL_KINDS.len() as u64;
    let mut count = 1u64;
    for len in 0..=max_len {
        if idx < count {
            let mut v = Vec::new();
            for _ in 0..len {
                v.push(ALL_KINDS[(idx % n) as usize]);
                idx /= n;
            }
            return Some(v);
        }
        idx -= count;
        count *= n;
    }
    None
}

pub fn kind_seq_space(max_len: usize) -> u64 {
    let n = ALL_KINDS.len() as u64;
    let mut total = 0;
    let mut c = 1;
    for _ in 0..=max_len {
        total += c;
        c *= n;
    }
    total
}

pub fn fill_frame(frame: &str, seq: &[K], rng: &mut Rng) -> String {
    let filler: Vec<&str> = seq.iter().map(|k| representative(*k, rng)).collect();
    frame.replace("<S>", &filler.join(" "))
}

// ---------------------------------------------------------------------------
// Character soups

pub const SOUP_CHARS: &[&str] = &[
    "a", "b", "x", "I", "_", "0", "1", "9", " ", " ", "\t", "\n", "\r\n", "\r", "\u{b}", "\u{c}", "\u{85}", "\u{a0}", "\u{1680}", "\u{2003}", "\u{2028}",
    "\u{2029}", "\u{202f}", "\u{205f}", "\u{3000}", ";", ",", "{", "}", "(", ")", "[", "]", "<", ">", "=", ".", "-", "+", "@", "\"", "'", "/", "*", "\\",
    "#", "$", "%", "&", "|", "~", "^", "?", "!", ":", "`", "é", "ß", "ñ", "Ω", "ж", "漢", "字", "한", "😀", "👍🏽", "e\u{301}", "\u{301}", "\u{200d}", "\u{feff}",
    "\0", "\u{1}", "\u{7f}", "\u{1b}", "٣", "３", "\u{fffd}", "\u{10ffff}", "/*", "*/", "/**", "//", "/***/",
];

/// Characters on which the reference lexer makes no claim (other Unicode decimal digits): C01 only.
pub const SOUP_EXTRA: &[&str] = &["१", "߁", "𝟗", "๓"];

pub fn char_soup(rng: &mut Rng, max_len: usize) -> String {
    let n = rng.below(max_len + 1);
    let mut s = String::new();
    for _ in 0..n {
        if rng.chance(1, 20) {
            if let Some(c) = crate::vocab::special_char(rng) {
                s.push(c);
                continue;
            }
        }
        s.push_str(rng.pick_str(SOUP_CHARS));
    }
    s
}

pub fn token_soup(rng: &mut Rng, max_len: usize) -> String {
    let n = rng.below(max_len + 1);
    let mut pieces = Vec::new();
    for _ in 0..n {
        if rng.chance(1, 5) {
            pieces.push(rng.pick_str(NOISE).to_string());
        } else {
            pieces.push(rng.pick_str(VOCAB).to_string());
        }
    }
    let seps = if rng.chance(1, 2) { SEPS_SIMPLE } else { SEPS_TIGHT };
    join(rng, &pieces, seps)
}

/// Snippets injected systematically into every gap / comment / string of a document.
pub const INJECT: &[&str] = &[
    "é", "\u{a0}", "\u{2028}", "\u{3000}", "\u{feff}", "\0", "e\u{301}", "😀", "漢字", "\"", "/*", "*/", "/**", "//", "\r", "\r\n", "@", "9999999999", "\u{85}",
    "٣", "'", "\\", "/**é*/", "/** @x */",
];

/// Splice at a random char boundary: insert / delete / replace a few characters.
pub fn char_splice(rng: &mut Rng, text: &str) -> String {
    let bounds: Vec<usize> = text.char_indices().map(|x| x.0).chain(std::iter::once(text.len())).collect();
    let a = bounds[rng.below(bounds.len())];
    let mut out = String::new();
    match rng.below(3) {
        0 => {
            out.push_str(&text[..a]);
            out.push_str(rng.pick_str(SOUP_CHARS));
            out.push_str(&text[a..]);
        }
        1 => {
            let b = bounds[(bounds.iter().position(|x| *x == a).unwrap() + 1 + rng.below(3)).min(bounds.len() - 1)];
            out.push_str(&text[..a]);
            out.push_str(&text[b..]);
        }
        _ => {
            let b = bounds[(bounds.iter().position(|x| *x == a).unwrap() + 1).min(bounds.len() - 1)];
            out.push_str(&text[..a]);
            out.push_str(rng.pick_str(SOUP_CHARS));
            out.push_str(&text[b..]);
        }
    }
    out
}
