//! C14 — a malformed member costs only itself: siblings survive, the error is local.

use crate::earley;
use crate::gen::{self, GenCfg, LayoutStyle, Tok};
use crate::libx;
use crate::model::*;
use crate::mutate;
use crate::prng::{hash_str, Rng};
use crate::reflex::{self, K};
use crate::runner::*;
use crate::synx;
use serde_json::json;
use std::time::Duration;

pub const K2_SIG: &str = "K2:enum-garbage-plus-comma-is-viable-prefix";

/// Directed garbage: unclosed annotation parameter lists (the K2 shape) and friends, tried in every item kind.
const DIRECTED_G: &[&str] = &[
    "@X (", "@X ( a", "@X ( a = 1", "@Y @X ( a , b", "@X ( a ,", "x @X (", "@X ( a = \"s\"", "= 3", "a b", "1", "( )", "[ ]", "< >", "void", "in x", "for",
    "@X ( ) ( )", "a . ", ". a", "a = = 1", "const", "oneway", "List <", "Map < String ,", "a [ ]", "@",
    // members broken off at every point of their own syntax (the recovery must not reach into the next sibling)
    "void f (", "void f ( in", "int f ( int x ,", "void f ( @A", "void f ( int", "void f ( int x", "void f ( )  =", "void f ( ) = 1 2", "void f ( ) )", "void f",
    // syntax of the real AIDL language that this grammar does not support (what a maintainer adds next)
    "int [ 3 ] x", "int [ 4294967296 ] x", "Foo [ 1 ] [ 2 ] y", "const int X = 1 + 2", "const int X = 1 << 2", "const int Y = A | B", "char c = 'a'",
    "T < U > g", "List < ? > l", "String s = \"a\" + \"b\"", "const int H = 0x1F", "const float F = 1.0f / 2", "int x = - 1", "union U", "Foo . Bar . Baz f ( )",
    "void f ( int a = 1 )", "void f ( ) throws E", "static int x", "final int y", "int x , y", "const int X = ( 1 )", "@ A int x", "int x = y", "int x = A . B . C",
    "Foo f (", "a . b f ( in a . b", "oneway void f (", "@A void f ( in", "const int", "const int K", "const int K =", "const int K = {", "const int K = { 1 ,",
    "", "int x =", "int x = {", "List < int", "List < int >", "Map < String , int", "Foo [", "Foo [ ] [", "f ( )", "void ( )", "A =", "A = =", "A B", "@A ( x = )",
];

fn garbage(rng: &mut Rng, kind: ItemKind) -> Vec<String> {
    if rng.chance(1, 60) {
        // a very long malformed member (hundreds of recovered errors in one member)
        let n = match crate::vocab::threshold(rng, 1200) {
            Some(t) if t > 40 && rng.chance(1, 3) => t + rng.below(30),
            _ => rng.range(90, 320),
        };
        let w = rng.pick_str(&["int", "x", "in", "String", "12", "@A", "[", "List <"]).to_string();
        let alt = rng.pick_str(&["y", "void", ")", "=", "\"s\"", "."]).to_string();
        let mut out = Vec::new();
        for i in 0..n {
            for t in mutate::token_texts(if i % 7 == 3 { &alt } else { &w }) {
                out.push(t);
            }
        }
        return out;
    }
    let n = rng.range(1, 8);
    let mut out: Vec<String> = Vec::new();
    if rng.chance(1, 12) {
        // a long string literal with multi-byte characters at every offset
        let len = rng.range(20, 120);
        let mut lit = String::from("\"");
        for _ in 0..len {
            lit.push_str(rng.pick_str(&["a", "b", " ", "é", "ü", "漢", "😀", "x", "-"]));
        }
        lit.push('"');
        out.push(lit);
    }
    while out.len() < n {
        if rng.chance(1, 12) {
            if let Some(w) = crate::vocab::ident(rng) {
                out.push(w);
                continue;
            }
        }
        let w = rng.pick_str(mutate::VOCAB);
        for t in mutate::token_texts(w) {
            if t == ";" || t == "{" || t == "}" {
                continue;
            }
            if kind == ItemKind::Enum && t == "," {
                continue;
            }
            out.push(t);
        }
    }
    out
}

fn tok_of(text: &str) -> Tok {
    let lr = reflex::lex(text);
    assert!(lr.invalid_at.is_none() && lr.toks.len() == 1, "garbage piece {text:?} is not one token");
    Tok { text: text.to_string(), kind: lr.toks[0].kind }
}

struct Case {
    kind: ItemKind,
    toks: Vec<Tok>,
    /// token index range of the garbage incl. terminator
    g_first: usize,
    g_term: usize,
    siblings: Vec<PMember>,
    pos: usize,
    g_len: usize,
    /// `... G ,` is a viable prefix of the grammar (the K2 condition; enums only)
    viable_with_terminator: bool,
}

fn build_case(rng: &mut Rng, directed: Option<&str>, kind: ItemKind) -> Option<Case> {
    let g = synx::grammar();
    let cfg = GenCfg { kind: Some(kind), max_members: 4, max_type_depth: 2, max_args: 2, max_imports: 1, max_declared: 0, ..GenCfg::default() };
    let mut d = gen::doc(rng, &cfg);
    d.item.trailing_comma = false;
    let n = d.item.members.len();
    let pos = rng.below(n + 1);
    let gtexts: Vec<String> = match directed {
        Some(s) => mutate::token_texts(s),
        None => garbage(rng, kind),
    };
    if gtexts.is_empty() && directed != Some("") {
        return None;
    }
    let gtoks: Vec<Tok> = gtexts.iter().map(|t| tok_of(t)).collect();
    if directed.is_some() && gtoks.iter().any(|t| matches!(t.kind, K::Semi | K::LBrace | K::RBrace) || (kind == ItemKind::Enum && t.kind == K::Comma)) {
        return None;
    }
    // G + terminator must not be a well-formed member
    let term_kind = if kind == ItemKind::Enum { K::Comma } else { K::Semi };
    let mut member_kinds: Vec<K> = gtoks.iter().map(|t| t.kind).collect();
    let start = match kind {
        ItemKind::Interface => "IElem",
        ItemKind::Parcelable => "PElem",
        ItemKind::Enum => "EnumElem",
    };
    if kind != ItemKind::Enum {
        member_kinds.push(K::Semi);
    }
    if earley::recognize(g, g.nt(start), &member_kinds).accepted {
        return None;
    }
    // render the document and splice G (+ terminator) in front of member `pos`
    let r = gen::render(&d);
    let item = &r.exp.item;
    let insert_at = if pos < n {
        item.children[pos].anchor
    } else {
        item.last // the closing brace
    };
    let mut toks: Vec<Tok> = Vec::new();
    toks.extend_from_slice(&r.toks[..insert_at]);
    // enum: when appending after the last element a separating comma is needed first
    if kind == ItemKind::Enum && pos == n && n > 0 {
        toks.push(tok_of(","));
    }
    let g_first = toks.len();
    toks.extend(gtoks.iter().cloned());
    let g_term = toks.len();
    toks.push(tok_of(if kind == ItemKind::Enum { "," } else { ";" }));
    toks.extend_from_slice(&r.toks[insert_at..]);
    let _ = term_kind;
    let kinds: Vec<K> = toks[..=g_term].iter().map(|t| t.kind).collect();
    let out = earley::recognize(g, g.nt("Aidl"), &kinds);
    let viable_with_terminator = match out.error_at {
        None => true,
        Some(e) => e >= kinds.len(),
    };
    let siblings = d.item.members.iter().map(|m| p_member_model(m, false)).collect();
    Some(Case { kind, toks, g_first, g_term, siblings, pos, g_len: gtoks.len(), viable_with_terminator })
}

fn is_subsequence(small: &[PMember], big: &[PMember]) -> bool {
    let mut j = 0;
    for b in big {
        if j < small.len() && *b == small[j] {
            j += 1;
        }
    }
    j == small.len()
}

fn run_case(stage: &str, i: u64, rng: &mut Rng, c: Case, st: &mut Stats) {
    let style = *rng.pick(&[LayoutStyle::Spaces, LayoutStyle::Plain, LayoutStyle::WildNoDoc, LayoutStyle::Crlf]);
    let laid = gen::layout(&c.toks, rng, style, &Default::default());
    assert!(gen::layout_is_faithful(&c.toks, &laid), "C14 layout not faithful: {:?}", laid.text);
    let text = &laid.text;
    st.case(hash_str(text), true);
    st.inc(&format!("kind.{}.pos{}.glen{}", c.kind.keyword(), c.pos.min(4), c.g_len.min(8)));
    st.inc(&format!("kind.{}", c.kind.keyword()));
    if c.viable_with_terminator {
        st.inc(&format!("garbage_plus_terminator_is_viable_prefix.{}", c.kind.keyword()));
    }
    let one = match libx::parse_one(text) {
        Ok(o) => o,
        Err(p) => {
            st.violate(stage, i, "panic", format!("library panicked: {p}"), json!({"text": text, "panic": p}));
            return;
        }
    };
    let g_start = laid.spans[c.g_first].0;
    let g_end = laid.spans[c.g_term].1;
    let mut problems: Vec<String> = Vec::new();
    match &one.stage.ast {
        None => problems.push("no tree although the malformed member ends at its terminator".into()),
        Some(a) => {
            let got = p_members_ast(&a.item);
            if got.len() > c.siblings.len() {
                st.inc("cases_with_extra_members_parsed_from_garbage_tail");
            }
            if !is_subsequence(&c.siblings, &got) {
                problems.push(format!("well-formed siblings are not an in-order, unchanged subsequence of the returned members: returned {} of {} siblings; returned names {:?}", got.len(), c.siblings.len(), got.iter().map(member_name).collect::<Vec<_>>()));
            }
        }
    }
    let errors: Vec<_> = one.stage.diagnostics.iter().filter(|d| libx::is_error(d)).collect();
    st.add("syntax_errors_seen", errors.len() as u64);
    if errors.is_empty() {
        problems.push("no Error diagnostic".into());
    }
    for d in &errors {
        if d.message.starts_with("Invalid method transact code") {
            continue;
        }
        if d.range.start.offset < g_start || d.range.end.offset > g_end {
            problems.push(format!("syntax Error {} lies outside the malformed member [{}..{}]", libx::diag_brief(d), g_start, g_end));
        }
    }
    if st.want_sample() && c.g_len > 2 {
        st.sample(json!({"text": text, "garbage_extent": [g_start, g_end], "diagnostics": libx::diags_brief(&one.stage.diagnostics)}));
    }
    if !problems.is_empty() {
        let sig = if c.kind == ItemKind::Enum && c.viable_with_terminator { K2_SIG } else { "member-not-local" };
        st.violate(stage, i, sig, problems[0].chars().take(500).collect(), json!({"text": text, "kind": c.kind.keyword(), "position": c.pos, "garbage_extent": [g_start, g_end], "problems": problems, "diagnostics": libx::diags_brief(&one.stage.diagnostics)}));
    }
}

fn member_name(m: &PMember) -> String {
    match m {
        PMember::Method { name, .. } | PMember::Const { name, .. } | PMember::Field { name, .. } | PMember::EnumElem { name, .. } => name.clone(),
    }
}

pub fn run(ctx: &Ctx) -> i32 {
    let mut stats = Stats::default();
    let kinds = [ItemKind::Interface, ItemKind::Parcelable, ItemKind::Enum];
    // directed family: every directed garbage x item kind x a few documents
    let reps = ctx.tier.pick(8u64, 60);
    let n_dir = DIRECTED_G.len() as u64 * 3 * reps;
    stats.merge(par_cases(ctx, "directed", n_dir, Duration::from_secs(60), |i, rng, st| {
        let gi = (i / (3 * reps)) as usize;
        let kind = kinds[((i / reps) % 3) as usize];
        if let Some(c) = build_case(rng, Some(DIRECTED_G[gi]), kind) {
            run_case("directed", i, rng, c, st);
        } else {
            st.inc("directed.skipped(not applicable to this item kind or well-formed)");
        }
    }));
    let n = ctx.tier.pick(40_000u64, 600_000);
    stats.merge(par_cases(ctx, "random", n, Duration::from_secs(ctx.tier.pick(70, 900)), |i, rng, st| {
        let kind = kinds[(i % 3) as usize];
        match build_case(rng, None, kind) {
            Some(c) => run_case("random", i, rng, c, st),
            None => st.inc("random.skipped(garbage happens to be a well-formed member)"),
        }
    }));
    finish(
        ctx,
        stats,
        Meta {
            rule: "a generated well-formed item (interface / parcelable / enum, 0-4 members) with one garbage member G spliced in at every position: G = 1-8 valid tokens of the full vocabulary without ';' '{' '}' (and without ',' in enums), rejected as a member by the reference grammar, followed by the normal terminator; plus a directed family of unclosed-annotation prefixes in every item kind; distinct by text hash, every case non-trivial".into(),
            assumptions: vec![
                "siblings are compared by the position-free projection of C02 on the parse-stage tree (hook H1)".into(),
                "extra members parsed out of the tail of G are allowed (the statement does not forbid them)".into(),
                "known finding K2 is matched only when the item is an enum and the reference grammar says `... G ,` is a viable prefix".into(),
            ],
            exhaustive: false,
            extra: Default::default(),
            min_nontrivial: 100,
        },
    )
}
