//! C05-C10: validation properties, decided by comparing the library's
//! validated trees and diagnostics with the reference validator (rval).

use crate::c04::validation_diags;
use crate::libx::{self, One};
use crate::proj::{self, ProjCfg, CATEGORIES, SUPPORT_HEADER};
use crate::prng::{hash_str, Rng};
use crate::runner::*;
use crate::rval::{self, FileExpect, Mismatch};
use crate::astx;
use aidl_parser::ast;
use serde_json::json;
use std::time::Duration;

pub struct FileEval {
    pub id: String,
    pub fe: FileExpect,
    pub mismatches: Vec<Mismatch>,
    pub matched: u64,
    pub unclassified: u64,
    pub kind_problems: Vec<String>,
    pub oneway_problems: Vec<String>,
    pub valid_diags: Vec<String>,
}

thread_local! { static HOSTILE: std::cell::Cell<bool> = std::cell::Cell::new(false); }

pub fn evaluate(files: &[(String, String)]) -> Result<Vec<FileEval>, String> {
    let p = libx::parse_project(files)?;
    HOSTILE.with(|h| h.set(p.hostile));
    let keys = rval::key_table(p.stage.values().filter_map(|r| r.ast.as_ref()));
    let mut out = Vec::new();
    let mut ids: Vec<&String> = p.stage.keys().collect();
    ids.sort();
    for id in ids {
        let (Some(st), Some(va)) = (p.stage.get(id), p.valid.get(id)) else { continue };
        let (Some(sa), Some(vaa)) = (&st.ast, &va.ast) else { continue };
        let fe = rval::expect_file(sa, vaa, &keys);
        let one = One { stage: st.clone(), valid: va.clone(), records: vec![] };
        let vd = validation_diags(&one);
        let (mismatches, matched, unclassified) = rval::compare(&fe, &vd);
        // kinds
        let mut kind_problems = Vec::new();
        let st_types = astx::all_types(sa);
        let va_types = astx::all_types(vaa);
        if st_types.len() != va_types.len() {
            kind_problems.push("validation changed the shape of the type tree".to_string());
        } else {
            for (i, (t, depth, place)) in va_types.iter().enumerate() {
                let (allowed, _) = &fe.kinds[i];
                if !allowed.contains(&t.kind) {
                    kind_problems.push(format!("type `{}` ({place}, depth {depth}) at [{}..{}] has kind {:?}; allowed by the scoping rules: {:?}", t.name, t.symbol_range.start.offset, t.symbol_range.end.offset, t.kind, allowed));
                }
            }
        }
        // oneway flags
        let mut oneway_problems = Vec::new();
        let ms = astx::methods(vaa);
        if ms.len() != fe.oneway.len() {
            oneway_problems.push("validation changed the number of methods".into());
        } else {
            for (m, want) in ms.iter().zip(fe.oneway.iter()) {
                if m.oneway != *want {
                    oneway_problems.push(format!("method `{}` is oneway={} after validation, expected {}", m.name, m.oneway, want));
                }
            }
        }
        out.push(FileEval { id: id.clone(), fe, mismatches, matched, unclassified, kind_problems, oneway_problems, valid_diags: libx::diags_brief(&va.diagnostics) });
    }
    Ok(out)
}

#[derive(Clone, Copy, PartialEq, Eq)]
pub enum Which {
    C05,
    C06,
    C07,
    C08,
    C09,
    C10,
}

fn classes_of(w: Which) -> &'static [&'static str] {
    match w {
        Which::C05 => &["unknown_type"],
        Which::C06 => &["dup_import", "unresolved_import", "unused_import", "decl_conflict", "decl_multiple", "decl_unused", "decl_usage"],
        Which::C07 => &["direction"],
        Which::C08 => &["array_multi", "array_elem", "list_elem", "map_key", "map_value", "raw_list", "raw_map"],
        Which::C09 => &["dup_method_name", "dup_method_id", "mixed_ids"],
        Which::C10 => &["redundant_oneway", "oneway_return"],
    }
}

/// Evaluate one project for one property; records coverage and violations. Returns number of problems.
pub fn judge(w: Which, stage: &str, i: u64, files: &[(String, String)], st: &mut Stats, label: &str) -> usize {
    let key = hash_str(&files.iter().map(|f| format!("{}\u{1}{}\u{2}", f.0, f.1)).collect::<String>());
    let evals = match evaluate(files) {
        Ok(e) => e,
        Err(p) => {
            st.case(key, true);
            st.violate(stage, i, "panic", format!("library panicked: {p}"), json!({"files": files, "panic": p}));
            return 1;
        }
    };
    if HOSTILE.with(|h| h.get()) {
        st.inc("projects_reached_through_a_hostile_prehistory");
    }
    let classes = classes_of(w);
    let mut problems: Vec<String> = Vec::new();
    let mut nontrivial = false;
    for ev in &evals {
        st.add("diagnostics_matched", ev.matched);
        st.add("diagnostics_unclassified(ignored)", ev.unclassified);
        match w {
            Which::C05 => {
                for (path, depth, place) in &ev.fe.resolution_paths {
                    st.inc(&format!("ref.{path}.depth{depth}.{place}"));
                    st.inc(&format!("refs_by_path.{path}"));
                    nontrivial = true;
                }
                st.add("ambiguous_references(any candidate accepted)", ev.fe.ambiguous);
                problems.extend(ev.kind_problems.iter().map(|p| format!("{}: {p}", ev.id)));
            }
            Which::C06 => {
                for c in &ev.fe.import_classes {
                    st.inc(&format!("import.{c}"));
                    nontrivial = true;
                }
                for c in &ev.fe.decl_classes {
                    st.inc(&format!("declaration.{c}"));
                    nontrivial = true;
                }
                for (path, depth, _) in &ev.fe.resolution_paths {
                    if *depth > 0 && path.starts_with("import") {
                        st.inc("import_used_deep_inside_generics");
                    }
                    if *path == "import(partial qualification)" {
                        st.inc("import_used_via_partial_qualification");
                    }
                }
            }
            Which::C07 => {
                for (c, d, ow) in &ev.fe.arg_cells {
                    st.seen("arg_cells(category,direction,oneway)", &format!("{}/{}/{}", c.name(), d, if *ow { "oneway" } else { "plain" }));
                    st.inc("arguments_checked");
                    nontrivial = true;
                }
            }
            Which::C08 => {
                for (cont, child, depth, place) in &ev.fe.container_cells {
                    st.seen("container_cells(container,child,depth,place)", &format!("{}/{}/d{}/{}", cont.name(), child.name(), depth, place));
                    st.inc("container_children_checked");
                    nontrivial = true;
                }
                st.add("lenient_cells(unresolved map key)", ev.fe.lenient.len() as u64);
            }
            Which::C09 => {
                let n = ev.fe.oneway.len();
                if n > 0 {
                    nontrivial = true;
                    st.inc(&format!("interfaces_with_methods.{}", n.min(10)));
                }
            }
            Which::C10 => {
                for ow in &ev.fe.oneway {
                    st.inc(if *ow { "methods_oneway_after_propagation" } else { "methods_not_oneway" });
                    nontrivial = true;
                }
                problems.extend(ev.oneway_problems.iter().map(|p| format!("{}: {p}", ev.id)));
            }
        }
        for m in &ev.mismatches {
            if classes.contains(&m.class) {
                problems.push(format!("{}: {}", ev.id, m.what));
            }
        }
        for e in &ev.fe.diags {
            if classes.contains(&e.class) {
                st.inc(&format!("expected.{}", e.class));
            }
        }
    }
    st.case(key, nontrivial);
    st.inc(&format!("{stage}.{label}"));
    if st.want_sample() && nontrivial && files.iter().all(|f| f.1.len() < 600) {
        st.sample(json!({"stage": stage, "files": files, "diagnostics": evals.iter().map(|e| json!({"id": e.id, "diags": e.valid_diags})).collect::<Vec<_>>()}));
    }
    if !problems.is_empty() {
        let sig = if problems[0].contains("has kind") {
            "wrong-resolution"
        } else if problems[0].contains("missing:") {
            "missing-diagnostic"
        } else if problems[0].contains("unexpected:") {
            "unexpected-diagnostic"
        } else {
            "wrong-diagnostic"
        };
        st.violate(stage, i, sig, problems[0].chars().take(400).collect(), json!({"files": files, "label": label, "problems": problems, "diagnostics": evals.iter().map(|e| json!({"id": e.id, "diags": e.valid_diags})).collect::<Vec<_>>()}));
    }
    problems.len()
}

fn random_projects(ctx: &Ctx, w: Which, stage: &'static str, n: u64, secs: u64, cfg: ProjCfg) -> Stats {
    par_cases(ctx, stage, n, Duration::from_secs(secs), move |i, rng, st| {
        let p = proj::project(rng, &cfg);
        judge(w, stage, i, &p.as_pairs(), st, "project");
    })
}

// ---------------------------------------------------------------------------
// C05

const C05_DIRECTED: &[(&str, &[(&str, &str)])] = &[
    ("deep_reference", &[("a", "package t; import s.Parc; parcelable P { Map<String, List<Parc>> m; List<List<Parc[]>> l; }"), ("b", "package s; parcelable Parc { int x; }")]),
    ("imported_builtin", &[("a", "package t; import android.os.ParcelFileDescriptor; import android.os.IBinder; interface I { void f(in ParcelFileDescriptor p, IBinder b, in android.os.ParcelFileDescriptor q, android.os.IBinder r); }")]),
    ("near_miss", &[("a", "package t; import pkg.Foo; parcelable P { XFoo a; FooX b; oo c; other.pkg.Foo d; pkg.Foo e; Foo f; }"), ("b", "package pkg; parcelable Foo { }")]),
    ("own_item_and_same_package", &[("a", "package t; parcelable P { P self; Q other; t.Q qualified; }"), ("b", "package t; parcelable Q { }")]),
    ("forward", &[("a", "package t; parcelable Fwd; parcelable q.Qual; parcelable P { Fwd a; Qual b; q.Qual c; List<Fwd> d; }")]),
    ("deep_unknown", &[("a", "package t; interface I { Map<String, List<Nope>> f(in List<List<Nope2>> x); }")]),
    // recovered syntax errors right in front of an unknown type (the offending token IS the type name)
    ("missing_semicolon_parcelable", &[("a", "package t; parcelable P { int a  Foo b; Bar c  Baz d; }")]),
    ("missing_semicolon_interface", &[("a", "package t; interface I { void f()  Foo g(); Foo2 h(in Nope n)  Nope2 k(); }")]),
    ("missing_comma_args", &[("a", "package t; interface I { void f(in Foo a in Bar b, Baz c); Qux g(); }")]),
];

/// a reference nested `depth` levels deep (generated, not a constant)
fn c05_very_deep(depth: usize) -> Vec<(String, String)> {
    let mut t = String::from("Parc");
    let mut u = String::from("Nope");
    for k in 0..depth {
        if k % 2 == 0 {
            t = format!("List<{t}>");
            u = format!("{u}[]");
        } else {
            t = format!("Map<String,{t}>");
            u = format!("List<{u}>");
        }
    }
    vec![
        ("a".to_string(), format!("package t; import s.Parc; parcelable P {{ {t} deep; {u} unknown; }}")),
        ("b".to_string(), "package s; parcelable Parc { int x; }".to_string()),
    ]
}


pub fn run_c05(ctx: &Ctx) -> i32 {
    let mut stats = Stats::default();
    stats.merge(par_cases(ctx, "directed", C05_DIRECTED.len() as u64, Duration::from_secs(30), |i, _r, st| {
        let (label, files) = C05_DIRECTED[i as usize];
        let files: Vec<(String, String)> = files.iter().map(|f| (f.0.to_string(), f.1.to_string())).collect();
        judge(Which::C05, "directed", i, &files, st, label);
    }));
    // references buried under hundreds / more than a thousand container levels (run on threads with a large stack)
    const DEPTHS: &[usize] = &[100, 255, 256, 257, 511, 512, 999, 1000, 1001, 1024, 1500];
    let only: Option<Option<u64>> = ctx.replay.as_ref().map(|(s, c)| if s == "very_deep" { Some(*c) } else { None });
    let deep_stats = std::thread::Builder::new()
        .stack_size(512 << 20)
        .spawn({
            let seed = ctx.seed;
            move || {
                let mut st = Stats::default();
                for (i, d) in DEPTHS.iter().enumerate() {
                    match only {
                        Some(None) => continue,
                        Some(Some(c)) if c != i as u64 => continue,
                        _ => {}
                    }
                    let files = c05_very_deep(*d);
                    let mut rng = crate::prng::Rng::for_case(seed, "very_deep", i as u64);
                    let _ = &mut rng;
                    st.inc(&format!("very_deep.depth{d}"));
                    judge(Which::C05, "very_deep", i as u64, &files, &mut st, "very_deep");
                }
                st
            }
        })
        .ok()
        .and_then(|h| h.join().ok());
    match deep_stats {
        Some(s) => stats.merge(s),
        None => stats.inconclusive += 1,
    }
    stats.merge(random_projects(ctx, Which::C05, "projects", ctx.tier.pick(15_000, 250_000), ctx.tier.pick(80, 900), ProjCfg::default()));
    finish(
        ctx,
        stats,
        Meta {
            rule: "multi-file projects (1-6 files) from the project generator: items of all kinds in several packages with shared prefixes/suffixes, imports exact / near-miss / unresolvable / duplicated / built-in, forward declarations qualified / unqualified / duplicated / shadowed, type references written simple, partially or fully qualified at depth 0-4 in every placement; the post-validation kind of every type node is compared with the set the scoping rules allow and every unresolved node must carry exactly one 'unknown type' Error; distinct by project text hash, non-trivial if the project contains at least one user-type reference".into(),
            assumptions: vec![
                "several imports matching one name / several files under one key: any of the candidates is accepted here (which one is C11's business)".into(),
                "a fully qualified android.os.ParcelFileDescriptor is accepted as the built-in whatever the imports are".into(),
                "a reference to the file's own item or to a same-package item without an import fits none of the rules and is expected to be 'unknown type'".into(),
            ],
            exhaustive: false,
            extra: Default::default(),
            min_nontrivial: 50,
        },
    )
}

// ---------------------------------------------------------------------------
// C06

const C06_DIRECTED: &[(&str, &[(&str, &str)])] = &[
    ("used_only_deep", &[("a", "package t; import s.Parc; parcelable P { Map<String, List<Parc>> m; }"), ("b", "package s; parcelable Parc { int x; }")]),
    ("dup_unresolved_unused", &[("a", "package t; import s.Parc; import s.Parc; import s.Gone; import s.En; parcelable P { int x; }"), ("b", "package s; parcelable Parc { int x; }"), ("c", "package s; enum En { A }")]),
    ("builtin_imports", &[("a", "package t; import android.os.IBinder; import android.os.ParcelableHolder; interface I { void f(IBinder b); }")]),
    ("declarations", &[("a", "package t; import s.Parc; parcelable Parc; parcelable Fwd; parcelable Fwd; parcelable Unused; parcelable q.Qual; parcelable P { Fwd f; List<Fwd> g; }"), ("b", "package s; parcelable Parc { int x; }")]),
    ("partial_qualification", &[("a", "package t; import other.pkg.Foo; parcelable P { pkg.Foo f; }"), ("b", "package other.pkg; parcelable Foo { }")]),
];

pub fn run_c06(ctx: &Ctx) -> i32 {
    let mut stats = Stats::default();
    stats.merge(par_cases(ctx, "directed", C06_DIRECTED.len() as u64, Duration::from_secs(30), |i, _r, st| {
        let (label, files) = C06_DIRECTED[i as usize];
        let files: Vec<(String, String)> = files.iter().map(|f| (f.0.to_string(), f.1.to_string())).collect();
        judge(Which::C06, "directed", i, &files, st, label);
    }));
    stats.merge(random_projects(ctx, Which::C06, "projects", ctx.tier.pick(15_000, 250_000), ctx.tier.pick(80, 900), ProjCfg::default()));
    finish(
        ctx,
        stats,
        Meta {
            rule: "projects as in C05; for every file the multiset of import-class and declaration-class diagnostics (class, severity, range, related range) is compared with the reference pass: duplicate -> Error pointing to the first; unresolvable -> 'unresolved' Warning; resolvable but no type (any depth) resolves to it -> 'unused' Warning; forward declarations: conflict with an import of the same simple name / repeated / unused / used; non-trivial if the project has at least one import or declaration".into(),
            assumptions: vec![
                "which imports are 'used' is computed by the reference resolver (any depth); where several resolutions are acceptable the library's own choice is taken".into(),
                "a conflict Error may point at any import with the same simple name".into(),
            ],
            exhaustive: false,
            extra: Default::default(),
            min_nontrivial: 50,
        },
    )
}

// ---------------------------------------------------------------------------
// C07

pub fn c07_cell(idx: u64) -> Option<(String, String)> {
    // 17 categories x 4 directions x method oneway x interface oneway x position(3)
    let n = 17 * 4 * 2 * 2 * 3;
    if idx >= n {
        return None;
    }
    let mut x = idx as usize;
    let cat = x % 17;
    x /= 17;
    let dir = x % 4;
    x /= 4;
    let m_ow = x % 2;
    x /= 2;
    let i_ow = x % 2;
    x /= 2;
    let pos = x % 3;
    let dirs = ["", "in ", "out ", "inout "];
    let (cname, ctext) = CATEGORIES[cat];
    let mut args = vec!["in int a0".to_string(), "in int a1".to_string(), "in int a2".to_string()];
    args[pos] = format!("{}{} subject", dirs[dir], ctext);
    let text = format!(
        "{} {}interface I {{ {}void f({}); }}",
        SUPPORT_HEADER,
        if i_ow == 1 { "oneway " } else { "" },
        if m_ow == 1 { "oneway " } else { "" },
        args.join(", ")
    );
    Some((format!("{cname}/{}/m_oneway={m_ow}/i_oneway={i_ow}/pos={pos}", dirs[dir].trim()), text))
}

pub fn run_c07(ctx: &Ctx) -> i32 {
    let mut stats = Stats::default();
    stats.merge(par_cases(ctx, "cells", 816, Duration::from_secs(120), |i, _r, st| {
        if let Some((label, text)) = c07_cell(i) {
            st.seen("exhaustive_cells", &label);
            judge(Which::C07, "cells", i, &proj::with_support(&text), st, "cell");
        }
    }));
    let cfg = ProjCfg { kind_bias: Some(crate::model::ItemKind::Interface), ..ProjCfg::default() };
    stats.merge(random_projects(ctx, Which::C07, "projects", ctx.tier.pick(10_000, 200_000), ctx.tier.pick(60, 900), cfg));
    let mut extra = serde_json::Map::new();
    extra.insert("exhaustive_part".into(), json!("stage cells: the full product 17 categories x {none,in,out,inout} x method oneway x interface oneway x argument position (816 cells), each realised as a real 4-file project so that categories arise through the resolver"));
    finish(
        ctx,
        stats,
        Meta {
            rule: "stage cells: exhaustive 816-cell product; stage projects: arguments inside random generated projects; per argument the multiset of direction-class Errors on the direction keyword (or the empty range at the type) is compared with the category table; non-trivial if the project has at least one argument".into(),
            assumptions: vec!["void as an argument type (the statement is silent) is held to the primitives' rule".into(), "argument categories come from the reference resolver".into()],
            exhaustive: false,
            extra,
            min_nontrivial: 50,
        },
    )
}

// ---------------------------------------------------------------------------
// C08

/// Enumerate type texts up to a nesting depth over the 17 leaf categories (+ raw List / Map).
fn c08_shapes(depth: usize) -> Vec<String> {
    let leaves: Vec<String> = CATEGORIES.iter().map(|c| c.1.to_string()).chain(["List".to_string(), "Map".to_string()]).collect();
    let keys = ["String", "int", "Nope", "En", "List<String>", "CharSequence"];
    let mut level: Vec<String> = leaves.clone();
    let mut all: Vec<String> = Vec::new();
    for _ in 0..depth {
        let mut next = Vec::new();
        for t in &level {
            next.push(format!("{t}[]"));
            next.push(format!("List<{t}>"));
            for k in keys {
                next.push(format!("Map<{k},{t}>"));
            }
        }
        // map keys over all leaves at depth 1 only
        all.extend(next.iter().cloned());
        level = next;
    }
    for k in &leaves {
        all.push(format!("Map<{k},String>"));
    }
    all
}

fn c08_file(types: &[String], placement: usize) -> String {
    let mut s = String::from(SUPPORT_HEADER);
    match placement {
        0 => {
            s.push_str(" parcelable P { ");
            for (i, t) in types.iter().enumerate() {
                s.push_str(&format!("{t} f{i}; "));
            }
            s.push('}');
        }
        1 => {
            s.push_str(" interface I { ");
            for (i, t) in types.iter().enumerate() {
                s.push_str(&format!("{t} m{i}(); "));
            }
            s.push('}');
        }
        2 => {
            s.push_str(" interface I { ");
            for (i, t) in types.iter().enumerate() {
                s.push_str(&format!("void m{i}(in {t} a, in int b); "));
            }
            s.push('}');
        }
        _ => {
            s.push_str(" interface I { ");
            for (i, t) in types.iter().enumerate() {
                s.push_str(&format!("const {t} K{i} = 1; "));
            }
            s.push('}');
        }
    }
    s
}

pub fn run_c08(ctx: &Ctx) -> i32 {
    let mut stats = Stats::default();
    let depth = ctx.tier.pick(2usize, 3);
    let shapes = c08_shapes(depth);
    const PACK: usize = 12;
    let chunks: Vec<Vec<String>> = shapes.chunks(PACK).map(|c| c.to_vec()).collect();
    let n = chunks.len() as u64 * 4;
    let n_shapes = shapes.len();
    stats.merge(par_cases(ctx, "shapes", n, Duration::from_secs(ctx.tier.pick(120, 1200)), |i, _r, st| {
        let chunk = &chunks[(i / 4) as usize];
        let placement = (i % 4) as usize;
        st.add("shapes_placed", chunk.len() as u64);
        judge(Which::C08, "shapes", i, &proj::with_support(&c08_file(chunk, placement)), st, ["field", "return", "arg", "const"][placement]);
    }));
    if ctx.tier == Tier::Quick {
        // depth 3 sampled
        let deep = c08_shapes(3);
        let deep: Vec<String> = deep.into_iter().filter(|t| t.matches('<').count() + t.matches('[').count() >= 3).collect();
        stats.merge(par_cases(ctx, "shapes_depth3_sampled", 600, Duration::from_secs(60), |i, rng, st| {
            let chunk: Vec<String> = (0..PACK).map(|_| rng.pick(&deep).clone()).collect();
            judge(Which::C08, "shapes_depth3_sampled", i, &proj::with_support(&c08_file(&chunk, rng.below(4))), st, "sampled");
        }));
    }
    stats.merge(random_projects(ctx, Which::C08, "projects", ctx.tier.pick(8_000, 150_000), ctx.tier.pick(60, 900), ProjCfg::default()));
    let mut extra = serde_json::Map::new();
    extra.insert("exhaustive_part".into(), json!(format!("stage shapes: all {n_shapes} container shapes up to nesting depth {depth} over the 17 leaf categories (+ raw List/Map; map keys over 6 key types below depth 1, over all leaves at depth 1), each in 4 syntactic positions (field, return type, argument, constant)")));
    finish(
        ctx,
        stats,
        Meta {
            rule: "stage shapes: exhaustive container shapes packed 12 per file in a real 4-file project; stage projects: containers inside random generated projects; for every array/list/map node at any depth the multiset of container-class diagnostics is compared with the element tables; non-trivial if at least one container child was judged".into(),
            assumptions: vec!["an unresolved name as map key is ambiguous in the statement: 0 or 1 Error accepted there (counted as lenient)".into(), "child categories come from the reference resolver".into()],
            exhaustive: false,
            extra,
            min_nontrivial: 20,
        },
    )
}

// ---------------------------------------------------------------------------
// C09

fn c09_seq_text(seq: &[usize], consts_mask: u32) -> String {
    // element: name (3) x code {none, 1, 2, 3} = 12; the third name differs from the first only in case
    let names = ["alpha", "beta", "Alpha"];
    let mut s = String::from("package t; interface I { ");
    for (i, e) in seq.iter().enumerate() {
        if consts_mask & (1 << i) != 0 {
            // constants never take part - even when they carry the name of a method (bit 8+i of the mask)
            if consts_mask & (1 << (8 + i)) != 0 {
                s.push_str(&format!("const int {} = {}; ", names[(i + seq.len()) % 3], i % 3 + 1));
            } else {
                s.push_str(&format!("const int K{i} = {}; ", i % 3 + 1));
            }
        }
        let (n, c) = (e % 3, e / 3);
        s.push_str(&format!("void {}(){}; ", names[n], if c == 0 { String::new() } else { format!(" = {c}") }));
    }
    if consts_mask & (1 << seq.len()) != 0 {
        s.push_str("const int KL = 2; ");
    }
    s.push('}');
    s
}

fn c09_decode(mut idx: u64, max_len: usize) -> Option<Vec<usize>> {
    let mut count = 12u64;
    for len in 1..=max_len {
        if idx < count {
            let mut v = Vec::new();
            for _ in 0..len {
                v.push((idx % 12) as usize);
                idx /= 12;
            }
            return Some(v);
        }
        idx -= count;
        count *= 12;
    }
    None
}

pub fn run_c09(ctx: &Ctx) -> i32 {
    let mut stats = Stats::default();
    let max_len = ctx.tier.pick(4usize, 5);
    let mut total = 0u64;
    let mut c = 12u64;
    for _ in 1..=max_len {
        total += c;
        c *= 12;
    }
    stats.merge(par_cases(ctx, "sequences", total, Duration::from_secs(ctx.tier.pick(120, 1500)), |i, rng, st| {
        if let Some(seq) = c09_decode(i, max_len) {
            let mask = if rng.chance(1, 3) { rng.below(1 << 14) as u32 } else { 0 };
            let text = c09_seq_text(&seq, mask);
            st.inc(&format!("sequence_length.{}", seq.len()));
            judge(Which::C09, "sequences", i, &[("main".to_string(), text)], st, "seq");
        }
    }));
    // random long sequences with large / zero-padded codes
    stats.merge(par_cases(ctx, "long", ctx.tier.pick(6_000, 120_000), Duration::from_secs(ctx.tier.pick(40, 600)), |i, rng, st| {
        let n = rng.range(6, 40);
        let names = ["a", "b", "c", "d", "e", "f", "g", "h", "alpha", "beta", "getInterfaceVersion", "getInterfaceHash", "getTransactionName", "asBinder", "toString", "TRUE", "Interface", "A", "B", "Alpha", "ALPHA", "Beta", "tostring"];
        let codes = ["0", "1", "01", "001", "7", "007", "4294967295", "4294967294", "16777215", "16777214", "16777213", "016777214", "10", "010", "2147483648", "4294967296", "99999999999"];
        let style = rng.below(3); // 0: mixed, 1: all coded, 2: none coded
        let mut s = String::from("package t; interface I { ");
        for k in 0..n {
            if rng.chance(1, 6) {
                if rng.chance(1, 2) {
                    s.push_str(&format!("const int K{k} = 1; "));
                } else {
                    // a constant named like a method
                    s.push_str(&format!("const int {} = 1; ", if rng.chance(1, 2) { format!("m{}", rng.below(n)) } else { rng.pick_str(&names).to_string() }));
                }
            }
            let name = if rng.chance(1, 2) {
                format!("m{k}")
            } else if rng.chance(1, 6) {
                crate::vocab::ident(rng).unwrap_or_else(|| "alpha".to_string())
            } else {
                rng.pick_str(&names).to_string()
            };
            let code = match style {
                0 => {
                    if rng.chance(1, 2) {
                        if rng.chance(1, 5) {
                            Some(crate::vocab::number_u32(rng).map(|n| n.to_string()).unwrap_or_else(|| "7".into()))
                        } else {
                            Some(rng.pick_str(&codes).to_string())
                        }
                    } else {
                        None
                    }
                }
                1 => Some(if rng.chance(2, 3) { format!("{}", k + 100) } else { rng.pick_str(&codes).to_string() }),
                _ => None,
            };
            s.push_str(&format!("void {name}(){}; ", code.map(|c| format!(" = {c}")).unwrap_or_default()));
        }
        s.push('}');
        judge(Which::C09, "long", i, &[("main".to_string(), s)], st, ["mixed", "all_coded", "none_coded"][style]);
    }));
    let mut extra = serde_json::Map::new();
    extra.insert("exhaustive_part".into(), json!(format!("stage sequences: every sequence of 1..{max_len} methods over 3 names x {{no code, codes 1,2,3}} ({total} sequences), constants interleaved at sampled positions")));
    finish(
        ctx,
        stats,
        Meta {
            rule: "stage sequences: exhaustive method sequences; stage long: random sequences of 6-40 methods with large and zero-padded codes; the multiset of duplicated-name / duplicated-id / mixed diagnostics with their related ranges is compared with an independent single pass; non-trivial if the interface has at least one method".into(),
            assumptions: vec!["codes are compared as u32 (007 = 7); a code that does not fit u32 is rejected by the parse stage and the method then counts as one without a code".into()],
            exhaustive: false,
            extra,
            min_nontrivial: 50,
        },
    )
}

// ---------------------------------------------------------------------------
// C10

fn c10_text(i_ow: bool, methods: &[(bool, usize)], consts: bool) -> String {
    let mut s = format!("{} {}interface I {{ ", SUPPORT_HEADER, if i_ow { "oneway " } else { "" });
    for (k, (m_ow, cat)) in methods.iter().enumerate() {
        if consts && k % 2 == 0 {
            s.push_str(&format!("const int K{k} = 1; "));
        }
        s.push_str(&format!("{}{} m{k}(); ", if *m_ow { "oneway " } else { "" }, CATEGORIES[*cat].1));
    }
    if consts {
        s.push_str("const String TAIL = \"t\"; ");
    }
    s.push('}');
    s
}

pub fn run_c10(ctx: &Ctx) -> i32 {
    let mut stats = Stats::default();
    let max_m = ctx.tier.pick(2usize, 3);
    // index space: interface oneway (2) x sum_{len=1..max_m} 34^len
    let mut per = 0u64;
    let mut c = 34u64;
    for _ in 1..=max_m {
        per += c;
        c *= 34;
    }
    let total = per * 2;
    stats.merge(par_cases(ctx, "product", total, Duration::from_secs(ctx.tier.pick(120, 1500)), |i, rng, st| {
        let i_ow = i % 2 == 1;
        let mut idx = i / 2;
        let mut count = 34u64;
        let mut methods = Vec::new();
        for len in 1..=max_m {
            if idx < count {
                for _ in 0..len {
                    let e = (idx % 34) as usize;
                    idx /= 34;
                    methods.push((e / 17 == 1, e % 17));
                }
                break;
            }
            idx -= count;
            count *= 34;
        }
        let text = c10_text(i_ow, &methods, rng.chance(1, 3));
        st.inc(&format!("methods_in_interface.{}", methods.len()));
        judge(Which::C10, "product", i, &proj::with_support(&text), st, if i_ow { "oneway_interface" } else { "plain_interface" });
    }));
    if ctx.tier == Tier::Quick {
        stats.merge(par_cases(ctx, "triples_sampled", 3000, Duration::from_secs(60), |i, rng, st| {
            let methods: Vec<(bool, usize)> = (0..3).map(|_| (rng.chance(1, 2), rng.below(17))).collect();
            let text = c10_text(rng.chance(1, 2), &methods, rng.chance(1, 3));
            judge(Which::C10, "triples_sampled", i, &proj::with_support(&text), st, "sampled");
        }));
    }
    let cfg = ProjCfg { kind_bias: Some(crate::model::ItemKind::Interface), ..ProjCfg::default() };
    stats.merge(random_projects(ctx, Which::C10, "projects", ctx.tier.pick(8_000, 150_000), ctx.tier.pick(60, 900), cfg));
    let mut extra = serde_json::Map::new();
    extra.insert("exhaustive_part".into(), json!(format!("stage product: interface oneway x (per-method oneway x return category over all 17) for every interface of 1..{max_m} methods ({total} interfaces), constants mixed in at sampled cases")));
    finish(
        ctx,
        stats,
        Meta {
            rule: "stage product: exhaustive finite product realised as 4-file projects; stage projects: interfaces inside random generated projects; post-validation oneway flags, redundancy Warnings (on the keyword) and return-type Errors (on the return type's name) are compared with the reference pass; explicit flags come from the parse-stage tree (hook H1); non-trivial if the interface has at least one method".into(),
            assumptions: vec!["return categories come from the reference resolver".into()],
            exhaustive: false,
            extra,
            min_nontrivial: 50,
        },
    )
}

#[allow(dead_code)]
fn _unused(_: &ast::Aidl, _: &mut Rng) {}
