//! Thin wrappers around the library under test. Every call into the library
//! goes through `runner::lib` so that a library panic is told apart from a
//! harness bug.

use crate::runner::lib;
use aidl_parser::diagnostic::{verif_take_expected, Diagnostic, DiagnosticKind, VerifParseErrorRecord};
use aidl_parser::{ParseFileResult, Parser};
use std::collections::HashMap;

pub type Pfr = ParseFileResult<String>;

pub struct One {
    /// parse-stage result (hook H1): tree before validation + syntax diagnostics
    pub stage: Pfr,
    /// validate() result
    pub valid: Pfr,
    /// hook H2 records of this parse
    pub records: Vec<VerifParseErrorRecord>,
}

pub fn parse_one(text: &str) -> Result<One, String> {
    lib(|| {
        let _ = verif_take_expected();
        let mut p: Parser<String> = Parser::new();
        p.add_content("f".to_string(), text);
        let records = verif_take_expected();
        let stage = p.verif_parse_results().get("f").cloned();
        let mut res = p.validate();
        let valid = res.remove("f");
        (stage, valid, records, res.len())
    })
    .and_then(|(stage, valid, records, extra)| match (stage, valid) {
        (Some(stage), Some(valid)) if extra == 0 => Ok(One { stage, valid, records }),
        _ => Err("validate() did not return exactly the one id that was added".to_string()),
    })
}

pub struct Project {
    pub stage: HashMap<String, Pfr>,
    pub valid: HashMap<String, Pfr>,
}

/// Add the files in the given order and validate.
pub fn parse_project(files: &[(String, String)]) -> Result<Project, String> {
    lib(|| {
        let mut p: Parser<String> = Parser::new();
        for (id, text) in files {
            p.add_content(id.clone(), text);
        }
        let stage = p.verif_parse_results().clone();
        let valid = p.validate();
        Project { stage, valid }
    })
}

pub fn is_error(d: &Diagnostic) -> bool {
    d.kind == DiagnosticKind::Error
}

pub fn diag_brief(d: &Diagnostic) -> String {
    format!(
        "{}[{}..{}] {:?}{}",
        if is_error(d) { "E" } else { "W" },
        d.range.start.offset,
        d.range.end.offset,
        d.message,
        d.context_message.as_ref().map(|c| format!(" ({c})")).unwrap_or_default()
    )
}

pub fn diags_brief(v: &[Diagnostic]) -> Vec<String> {
    v.iter().map(diag_brief).collect()
}

/// canonical text of one diagnostic (all fields)
pub fn diag_key(d: &Diagnostic) -> String {
    serde_json::to_string(d).unwrap_or_else(|_| format!("{d:?}"))
}

pub fn same_exact<ID: Eq + std::hash::Hash + Clone + std::fmt::Debug>(a: &ParseFileResult<ID>, b: &ParseFileResult<ID>) -> bool {
    a.ast == b.ast && a.diagnostics == b.diagnostics
}

/// equal trees and equal diagnostics as multisets (their order is C11's matter)
pub fn same_multiset<ID: Eq + std::hash::Hash + Clone + std::fmt::Debug>(a: &ParseFileResult<ID>, b: &ParseFileResult<ID>) -> bool {
    if a.ast != b.ast || a.diagnostics.len() != b.diagnostics.len() {
        return false;
    }
    let mut x: Vec<String> = a.diagnostics.iter().map(diag_key).collect();
    let mut y: Vec<String> = b.diagnostics.iter().map(diag_key).collect();
    x.sort();
    y.sort();
    x == y
}

/// digest of a whole result map, order-sensitive inside each file, independent of map iteration order
pub fn digest_results<ID: Eq + std::hash::Hash + Clone + std::fmt::Debug + Ord>(res: &HashMap<ID, ParseFileResult<ID>>) -> Vec<(String, u64)> {
    let mut ids: Vec<&ID> = res.keys().collect();
    ids.sort();
    ids.iter()
        .map(|id| {
            let r = &res[*id];
            // serde_json::Value maps are sorted, so annotation parameter order does not matter
            let tree = r.ast.as_ref().map(|a| serde_json::to_value(a).map(|v| v.to_string()).unwrap_or_default()).unwrap_or_else(|| "<no tree>".into());
            let diags: Vec<String> = r.diagnostics.iter().map(diag_key).collect();
            (format!("{id:?}"), crate::prng::hash_str(&format!("{tree}\u{1}{}", diags.join("\u{2}"))))
        })
        .collect()
}
