//! Thin wrappers around the library under test. Every call into the library
//! goes through `runner::lib` so that a library panic is told apart from a
//! harness bug.

use crate::runner::lib;
use aidl_parser::diagnostic::{verif_take_expected, Diagnostic, DiagnosticKind, VerifParseErrorRecord};
use aidl_parser::{ParseFileResult, Parser};
use std::collections::HashMap;

pub type Pfr = ParseFileResult<String>;

pub struct One {
    /// parse-stage result (hook H1): tree before validation + syntax diagnostics
    pub stage: Pfr,
    /// validate() result
    pub valid: Pfr,
    /// hook H2 records of this parse
    pub records: Vec<VerifParseErrorRecord>,
}

pub fn parse_one(text: &str) -> Result<One, String> {
    lib(|| {
        let _ = verif_take_expected();
        let mut p: Parser<String> = Parser::new();
        p.add_content("f".to_string(), text);
        let records = verif_take_expected();
        let stage = p.verif_parse_results().get("f").cloned();
        let mut res = p.validate();
        let valid = res.remove("f");
        (stage, valid, records, res.len())
    })
    .and_then(|(stage, valid, records, extra)| match (stage, valid) {
        (Some(stage), Some(valid)) if extra == 0 => Ok(One { stage, valid, records }),
        _ => Err("validate() did not return exactly the one id that was added".to_string()),
    })
}

pub struct Project {
    pub stage: HashMap<String, Pfr>,
    pub valid: HashMap<String, Pfr>,
}

/// Add the files in the given order and validate.
pub fn parse_project(files: &[(String, String)]) -> Result<Project, String> {
    lib(|| {
        let mut p: Parser<String> = Parser::new();
        for (id, text) in files {
            p.add_content(id.clone(), text);
        }
        let stage = p.verif_parse_results().clone();
        let valid = p.validate();
        Project { stage, valid }
    })
}

pub fn is_error(d: &Diagnostic) -> bool {
    d.kind == DiagnosticKind::Error
}

pub fn diag_brief(d: &Diagnostic) -> String {
    format!(
        "{}[{}..{}] {:?}{}",
        if is_error(d) { "E" } else { "W" },
        d.range.start.offset,
        d.range.end.offset,
        d.message,
        d.context_message.as_ref().map(|c| format!(" ({c})")).unwrap_or_default()
    )
}

pub fn diags_brief(v: &[Diagnostic]) -> Vec<String> {
    v.iter().map(diag_brief).collect()
}
