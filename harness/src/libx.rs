//! Thin wrappers around the library under test. Every call into the library
//! goes through `runner::lib` so that a library panic is told apart from a
//! harness bug.

use crate::runner::lib;
use aidl_parser::diagnostic::{verif_take_expected, Diagnostic, DiagnosticKind, VerifParseErrorRecord};
use aidl_parser::{ParseFileResult, Parser};
use std::collections::HashMap;

pub type Pfr = ParseFileResult<String>;

pub struct One {
    /// parse-stage result (hook H1): tree before validation + syntax diagnostics
    pub stage: Pfr,
    /// validate() result
    pub valid: Pfr,
    /// hook H2 records of this parse
    pub records: Vec<VerifParseErrorRecord>,
}

pub fn parse_one(text: &str) -> Result<One, String> {
    lib(|| {
        let _ = verif_take_expected();
        let mut p: Parser<String> = Parser::new();
        p.add_content("f".to_string(), text);
        let records = verif_take_expected();
        let stage = p.verif_parse_results().get("f").cloned();
        let mut res = p.validate();
        let valid = res.remove("f");
        (stage, valid, records, res.len())
    })
    .and_then(|(stage, valid, records, extra)| match (stage, valid) {
        (Some(stage), Some(valid)) if extra == 0 => Ok(One { stage, valid, records }),
        _ => Err("validate() did not return exactly the one id that was added".to_string()),
    })
}

pub struct Project {
    pub stage: HashMap<String, Pfr>,
    pub valid: HashMap<String, Pfr>,
    /// the parser went through a hostile pre-history before reaching the final (id -> content) state
    pub hostile: bool,
}

/// qualified names of all `import a.b.C;` statements found in the texts (cheap textual scan)
pub fn scan_imports(files: &[(String, String)]) -> Vec<String> {
    let mut out = Vec::new();
    for (_, t) in files {
        let mut rest = t.as_str();
        while let Some(i) = rest.find("import") {
            rest = &rest[i + 6..];
            if let Some(j) = rest.find(';') {
                let name: String = rest[..j].chars().filter(|c| !c.is_whitespace()).collect();
                if !name.is_empty() && name.contains('.') && name.chars().all(|c| c.is_ascii_alphanumeric() || c == '_' || c == '.') && !out.contains(&name) {
                    out.push(name);
                }
            }
        }
    }
    out
}

pub fn decoy_for(key: &str) -> String {
    let (pkg, name) = key.rsplit_once('.').unwrap_or(("decoy", key));
    format!("package {pkg}; parcelable {name} {{ int decoy; }}")
}

/// Add the files in the given order and validate. For half of the projects (chosen by content hash) the
/// parser first goes through a hostile pre-history that leaves the same final state plus garbage files
/// `zz_g` (and sometimes `zz_r`): decoy files defining keys the project imports are added (one under the id of the first real file,
/// which the real content then replaces), validate() is called, one decoy is replaced by unparsable text and
/// one is removed. Results must depend on the surviving contents only (C12), so every oracle still applies;
/// this makes the project-based checks sensitive to stale caches.
pub fn parse_project(files: &[(String, String)]) -> Result<Project, String> {
    let h = crate::prng::hash_str(&files.iter().map(|f| f.1.as_str()).collect::<Vec<_>>().join("\u{1}"));
    let hostile = h % 2 == 0 && std::env::var("VERIF_NO_HOSTILE_HISTORY").is_err() && !files.is_empty();
    lib(|| {
        let mut p: Parser<String> = Parser::new();
        if hostile {
            let imports = scan_imports(files);
            if !imports.is_empty() {
                let n = imports.len() as u64;
                p.add_content("zz_g".to_string(), &decoy_for(&imports[(h / 2 % n) as usize]));
                p.add_content("zz_r".to_string(), &decoy_for(&imports[(h / 14 % n) as usize]));
                p.add_content(files[0].0.clone(), &decoy_for(&imports[(h / 98 % n) as usize]));
            } else {
                p.add_content("zz_g".to_string(), "package zz.decoy; parcelable D { }");
            }
        }
        for (id, text) in files {
            p.add_content(id.clone(), text);
        }
        if hostile {
            // variants: where validate() calls fall relative to the replacement / removal matters for stale caches
            match h % 5 {
                0 => {
                    let _ = p.validate();
                    p.add_content("zz_g".to_string(), "package zz garbage {");
                    let _ = p.validate();
                    p.remove_content("zz_r".to_string());
                }
                1 => {
                    let _ = p.validate();
                    p.remove_content("zz_r".to_string());
                    let _ = p.validate();
                    p.add_content("zz_g".to_string(), "package zz garbage {");
                }
                2 => {
                    let _ = p.validate();
                    p.add_content("zz_g".to_string(), "package zz garbage {");
                    p.remove_content("zz_r".to_string());
                }
                3 => {
                    // no removal at all after the replacements: zz_r is turned into garbage too
                    p.add_content("zz_g".to_string(), "package zz garbage {");
                    p.add_content("zz_r".to_string(), "also garbage");
                }
                _ => {
                    p.remove_content("zz_r".to_string());
                    p.add_content("zz_g".to_string(), "package zz garbage {");
                    let _ = p.validate();
                }
            }
        }
        let stage = p.verif_parse_results().clone();
        let valid = p.validate();
        Project { stage, valid, hostile }
    })
}

pub fn is_error(d: &Diagnostic) -> bool {
    d.kind == DiagnosticKind::Error
}

pub fn diag_brief(d: &Diagnostic) -> String {
    format!(
        "{}[{}..{}] {:?}{}",
        if is_error(d) { "E" } else { "W" },
        d.range.start.offset,
        d.range.end.offset,
        d.message,
        d.context_message.as_ref().map(|c| format!(" ({c})")).unwrap_or_default()
    )
}

pub fn diags_brief(v: &[Diagnostic]) -> Vec<String> {
    v.iter().map(diag_brief).collect()
}

/// canonical text of one diagnostic (all fields)
pub fn diag_key(d: &Diagnostic) -> String {
    serde_json::to_string(d).unwrap_or_else(|_| format!("{d:?}"))
}

pub fn same_exact<ID: Eq + std::hash::Hash + Clone + std::fmt::Debug>(a: &ParseFileResult<ID>, b: &ParseFileResult<ID>) -> bool {
    a.ast == b.ast && a.diagnostics == b.diagnostics
}

/// equal trees and equal diagnostics as multisets (their order is C11's matter)
pub fn same_multiset<ID: Eq + std::hash::Hash + Clone + std::fmt::Debug>(a: &ParseFileResult<ID>, b: &ParseFileResult<ID>) -> bool {
    if a.ast != b.ast || a.diagnostics.len() != b.diagnostics.len() {
        return false;
    }
    let mut x: Vec<String> = a.diagnostics.iter().map(diag_key).collect();
    let mut y: Vec<String> = b.diagnostics.iter().map(diag_key).collect();
    x.sort();
    y.sort();
    x == y
}

/// digest of a whole result map, order-sensitive inside each file, independent of map iteration order
pub fn digest_results<ID: Eq + std::hash::Hash + Clone + std::fmt::Debug + Ord>(res: &HashMap<ID, ParseFileResult<ID>>) -> Vec<(String, u64)> {
    let mut ids: Vec<&ID> = res.keys().collect();
    ids.sort();
    ids.iter()
        .map(|id| {
            let r = &res[*id];
            // serde_json::Value maps are sorted, so annotation parameter order does not matter
            let tree = r.ast.as_ref().map(|a| serde_json::to_value(a).map(|v| v.to_string()).unwrap_or_default()).unwrap_or_else(|| "<no tree>".into());
            let diags: Vec<String> = r.diagnostics.iter().map(diag_key).collect();
            (format!("{id:?}"), crate::prng::hash_str(&format!("{tree}\u{1}{}", diags.join("\u{2}"))))
        })
        .collect()
}
