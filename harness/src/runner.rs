//! Shared run infrastructure: context, per-thread statistics, the parallel case
//! driver, the verdict discipline (violated / held / inconclusive), known
//! findings, replay files and evidence files.

use crate::prng::Rng;
use serde_json::{json, Map, Value};
use std::cell::RefCell;
use std::collections::{BTreeMap, BTreeSet, HashSet};
use std::panic::{catch_unwind, AssertUnwindSafe};
use std::sync::atomic::{AtomicBool, AtomicU64, Ordering};
use std::sync::Mutex;
use std::time::{Duration, Instant};

#[derive(Clone, Copy, PartialEq, Eq, Debug)]
pub enum Tier {
    Quick,
    Thorough,
}

impl Tier {
    pub fn name(self) -> &'static str {
        match self {
            Tier::Quick => "quick",
            Tier::Thorough => "thorough",
        }
    }
    pub fn pick<T>(self, q: T, t: T) -> T {
        match self {
            Tier::Quick => q,
            Tier::Thorough => t,
        }
    }
}

/// Where evidence / replays / scratch files go: /verif, or $VERIF_OUT_DIR for scratch sweeps that must not
/// touch the real evidence files (never set by the registered commands).
pub fn out_dir() -> String {
    std::env::var("VERIF_OUT_DIR").unwrap_or_else(|_| "/verif".to_string())
}

pub struct Ctx {
    pub id: String,
    pub tier: Tier,
    pub seed: u64,
    /// (stage, case) to re-run alone
    pub replay: Option<(String, u64)>,
    pub start: Instant,
    pub threads: usize,
    pub verbose: bool,
}

#[derive(Clone, Debug)]
pub struct Violation {
    pub stage: String,
    pub case: u64,
    /// stable signature used to match known findings
    pub signature: String,
    pub summary: String,
    pub detail: Value,
}

#[derive(Default)]
pub struct Stats {
    pub counters: BTreeMap<String, u64>,
    pub evaluations: u64,
    pub distinct: HashSet<u64>,
    pub samples: Vec<Value>,
    pub violations: Vec<Violation>,
    pub violation_count: u64,
    pub inconclusive: u64,
    pub harness_errors: Vec<String>,
    pub sets: BTreeMap<String, BTreeSet<String>>,
    pub stopped_by: BTreeMap<String, String>,
    pub maxima: BTreeMap<String, u64>,
    /// known-finding signature -> matches (never stored as violations)
    pub known_hits: BTreeMap<String, u64>,
}

static KNOWN: std::sync::OnceLock<Vec<KnownFinding>> = std::sync::OnceLock::new();

/// Load the known findings for one property (called once at start-up).
pub fn init_known(property: &str) {
    let all = load_known_findings();
    let _ = KNOWN.set(all.into_iter().filter(|k| k.property == property && k.status == "known").collect());
}

fn known_for(signature: &str) -> bool {
    KNOWN.get().map_or(false, |v| v.iter().any(|k| k.signature == signature))
}

const MAX_STORED_VIOLATIONS: usize = 40;
const MAX_SAMPLES: usize = 6;

impl Stats {
    pub fn inc(&mut self, k: &str) {
        *self.counters.entry(k.to_string()).or_insert(0) += 1;
    }
    pub fn add(&mut self, k: &str, n: u64) {
        *self.counters.entry(k.to_string()).or_insert(0) += n;
    }
    pub fn max(&mut self, k: &str, n: u64) {
        let e = self.maxima.entry(k.to_string()).or_insert(0);
        if n > *e {
            *e = n;
        }
    }
    pub fn seen(&mut self, set: &str, item: &str) {
        let s = self.sets.entry(set.to_string()).or_default();
        if s.len() < 4096 {
            s.insert(item.to_string());
        }
    }
    /// one evaluated case; `key` identifies it for the distinct count, `nontrivial` by the check's rule
    pub fn case(&mut self, key: u64, nontrivial: bool) {
        self.evaluations += 1;
        if nontrivial {
            self.distinct.insert(key);
        }
    }
    pub fn sample(&mut self, v: Value) {
        if self.samples.len() < MAX_SAMPLES {
            self.samples.push(v);
        }
    }
    pub fn want_sample(&self) -> bool {
        self.samples.len() < MAX_SAMPLES
    }
    pub fn violate(&mut self, stage: &str, case: u64, signature: &str, summary: String, detail: Value) {
        if known_for(signature) {
            *self.known_hits.entry(signature.to_string()).or_insert(0) += 1;
            return;
        }
        self.violation_count += 1;
        if self.violations.len() < MAX_STORED_VIOLATIONS {
            self.violations.push(Violation {
                stage: stage.to_string(),
                case,
                signature: signature.to_string(),
                summary,
                detail,
            });
        }
    }
    pub fn merge(&mut self, o: Stats) {
        for (k, v) in o.counters {
            *self.counters.entry(k).or_insert(0) += v;
        }
        for (k, v) in o.maxima {
            let e = self.maxima.entry(k).or_insert(0);
            if v > *e {
                *e = v;
            }
        }
        self.evaluations += o.evaluations;
        self.distinct.extend(o.distinct);
        for s in o.samples {
            if self.samples.len() < MAX_SAMPLES * 4 {
                self.samples.push(s);
            }
        }
        self.violation_count += o.violation_count;
        for v in o.violations {
            if self.violations.len() < MAX_STORED_VIOLATIONS * 4 {
                self.violations.push(v);
            }
        }
        self.inconclusive += o.inconclusive;
        self.harness_errors.extend(o.harness_errors);
        for (k, v) in o.sets {
            let e = self.sets.entry(k).or_default();
            for x in v {
                if e.len() < 4096 {
                    e.insert(x);
                }
            }
        }
        for (k, v) in o.stopped_by {
            self.stopped_by.insert(k, v);
        }
        for (k, v) in o.known_hits {
            *self.known_hits.entry(k).or_insert(0) += v;
        }
    }
}

thread_local! {
    static LAST_PANIC: RefCell<Option<String>> = RefCell::new(None);
}

pub fn install_quiet_panic_hook() {
    std::panic::set_hook(Box::new(|info| {
        let msg = if let Some(s) = info.payload().downcast_ref::<&str>() {
            s.to_string()
        } else if let Some(s) = info.payload().downcast_ref::<String>() {
            s.clone()
        } else {
            "<non-string panic>".to_string()
        };
        let loc = info.location().map(|l| format!("{}:{}", l.file(), l.line())).unwrap_or_default();
        LAST_PANIC.with(|p| *p.borrow_mut() = Some(format!("{msg} @ {loc}")));
    }));
}

pub fn take_panic() -> String {
    LAST_PANIC.with(|p| p.borrow_mut().take()).unwrap_or_else(|| "<unknown panic>".into())
}

/// Run a closure that calls into the library; a panic is returned as Err(message @ location).
pub fn lib<T>(f: impl FnOnce() -> T) -> Result<T, String> {
    match catch_unwind(AssertUnwindSafe(f)) {
        Ok(v) => Ok(v),
        Err(_) => Err(take_panic()),
    }
}

/// Parallel case driver. `f(case_index, rng, stats)` is called for indices 0..n
/// (or until the wall budget is used), each with its own PRNG stream.
pub fn par_cases<F>(ctx: &Ctx, stage: &str, n: u64, budget: Duration, f: F) -> Stats
where
    F: Fn(u64, &mut Rng, &mut Stats) + Sync,
{
    let mut total = Stats::default();
    if let Some((rs, rc)) = &ctx.replay {
        if rs != stage {
            return total;
        }
        let mut rng = Rng::for_case(ctx.seed, stage, *rc);
        let mut st = Stats::default();
        match catch_unwind(AssertUnwindSafe(|| f(*rc, &mut rng, &mut st))) {
            Ok(()) => {}
            Err(_) => st.harness_errors.push(format!("harness panic in {stage} case {rc}: {}", take_panic())),
        }
        return st;
    }
    let next = AtomicU64::new(0);
    let stop = AtomicBool::new(false);
    let t0 = Instant::now();
    let merged: Mutex<Stats> = Mutex::new(Stats::default());
    let timed_out = AtomicBool::new(false);
    std::thread::scope(|s| {
        for _ in 0..ctx.threads {
            s.spawn(|| {
                let mut st = Stats::default();
                loop {
                    if stop.load(Ordering::Relaxed) {
                        break;
                    }
                    let i = next.fetch_add(1, Ordering::Relaxed);
                    if i >= n {
                        break;
                    }
                    if (i & 15) == 0 && t0.elapsed() > budget {
                        timed_out.store(true, Ordering::Relaxed);
                        stop.store(true, Ordering::Relaxed);
                        break;
                    }
                    let mut rng = Rng::for_case(ctx.seed, stage, i);
                    match catch_unwind(AssertUnwindSafe(|| f(i, &mut rng, &mut st))) {
                        Ok(()) => {}
                        Err(_) => {
                            st.harness_errors.push(format!("harness panic in {stage} case {i}: {}", take_panic()));
                            if st.harness_errors.len() > 3 {
                                stop.store(true, Ordering::Relaxed);
                                break;
                            }
                        }
                    }
                    if st.violation_count > 200 {
                        stop.store(true, Ordering::Relaxed);
                        break;
                    }
                }
                merged.lock().unwrap().merge(st);
            });
        }
    });
    total.merge(merged.into_inner().unwrap());
    let done = next.load(Ordering::Relaxed).min(n);
    total.add(&format!("stage.{stage}.cases"), total.evaluations);
    total.stopped_by.insert(
        stage.to_string(),
        if timed_out.load(Ordering::Relaxed) {
            format!("time budget {:?} after {} of {} cases", budget, done, n)
        } else if stop.load(Ordering::Relaxed) {
            format!("stopped early after {} of {} cases (violation/error cap)", done, n)
        } else {
            format!("all {} cases", n)
        },
    );
    total
}

#[derive(Clone, Debug)]
pub struct KnownFinding {
    pub property: String,
    pub status: String,
    pub signature: String,
    pub what: String,
}

pub fn load_known_findings() -> Vec<KnownFinding> {
    let path = "/verif/known_findings.json";
    let Ok(txt) = std::fs::read_to_string(path) else { return Vec::new() };
    let Ok(v) = serde_json::from_str::<Value>(&txt) else { return Vec::new() };
    let mut out = Vec::new();
    if let Some(arr) = v.get("findings").and_then(|a| a.as_array()) {
        for e in arr {
            out.push(KnownFinding {
                property: e.get("property").and_then(|x| x.as_str()).unwrap_or("").to_string(),
                status: e.get("status").and_then(|x| x.as_str()).unwrap_or("").to_string(),
                signature: e.get("signature").and_then(|x| x.as_str()).unwrap_or("").to_string(),
                what: e.get("what").and_then(|x| x.as_str()).unwrap_or("").to_string(),
            });
        }
    }
    out
}

pub struct Meta {
    pub rule: String,
    pub assumptions: Vec<String>,
    pub exhaustive: bool,
    pub extra: Map<String, Value>,
    /// minimum number of distinct non-trivial cases below which the run counts as having observed nothing
    pub min_nontrivial: u64,
}

/// Write the evidence file, print the verdict lines, return the exit code.
pub fn finish(ctx: &Ctx, stats: Stats, meta: Meta) -> i32 {
    let known = KNOWN.get().cloned().unwrap_or_default();
    let mut known_hits: BTreeMap<String, (u64, String)> = BTreeMap::new();
    for (sig, n) in &stats.known_hits {
        let what = known.iter().find(|k| &k.signature == sig).map(|k| k.what.clone()).unwrap_or_default();
        known_hits.insert(sig.clone(), (*n, what));
    }
    let real: Vec<&Violation> = stats.violations.iter().collect();
    let real_count = stats.violation_count;

    let _ = std::fs::create_dir_all(format!("{}/replays", out_dir()));
    let _ = std::fs::create_dir_all(format!("{}/evidence", out_dir()));
    let mut lines = Vec::new();
    for (i, v) in real.iter().enumerate().take(10) {
        let path = format!("{}/replays/{}-{}-{}-{}-{}.json", out_dir(), ctx.id, ctx.tier.name(), ctx.seed, v.stage, v.case);
        let body = json!({
            "property": ctx.id, "tier": ctx.tier.name(), "seed": ctx.seed,
            "stage": v.stage, "case": v.case, "signature": v.signature,
            "summary": v.summary, "detail": v.detail,
        });
        let _ = std::fs::write(&path, serde_json::to_string_pretty(&body).unwrap());
        lines.push(format!("VIOLATION property={} replay={}", ctx.id, path));
        if i < 5 {
            eprintln!("  violation [{}#{}] {}: {}", v.stage, v.case, v.signature, v.summary);
        }
    }

    let distinct_nontrivial = stats.distinct.len() as u64;
    let wall = ctx.start.elapsed().as_secs_f64();
    let mut coverage = Map::new();
    coverage.insert("evaluations".into(), json!(stats.evaluations));
    coverage.insert("distinct_nontrivial".into(), json!(distinct_nontrivial));
    coverage.insert("rule".into(), json!(meta.rule));
    let samples: Vec<Value> = stats.samples.iter().take(8).cloned().collect();
    coverage.insert("samples".into(), Value::Array(samples));
    if meta.exhaustive {
        coverage.insert("exhaustive".into(), json!(true));
    }
    coverage.insert("counters".into(), json!(stats.counters));
    coverage.insert("maxima".into(), json!(stats.maxima));
    let mut sets = Map::new();
    for (k, v) in &stats.sets {
        let items: Vec<&String> = v.iter().take(64).collect();
        sets.insert(k.clone(), json!({"distinct": v.len(), "items": items}));
    }
    coverage.insert("observed_sets".into(), Value::Object(sets));
    coverage.insert("stopped_by".into(), json!(stats.stopped_by));
    coverage.insert("inconclusive".into(), json!(stats.inconclusive));
    coverage.insert(
        "known_finding_matches".into(),
        json!(known_hits.iter().map(|(k, v)| (k.clone(), json!({"count": v.0, "what": v.1}))).collect::<Map<String, Value>>()),
    );
    coverage.insert("harness_errors".into(), json!(stats.harness_errors.len()));
    for (k, v) in meta.extra {
        coverage.insert(k, v);
    }
    let ev = json!({
        "property_id": ctx.id,
        "tier": ctx.tier.name(),
        "seed": ctx.seed,
        "level": "exploration",
        "coverage": Value::Object(coverage),
        "assumptions": meta.assumptions,
        "wall_s": (wall * 100.0).round() / 100.0,
        "violations": real_count,
        "verdict": if real_count > 0 { "violated" } else if !stats.harness_errors.is_empty() { "harness-error" } else { "held on what was observed" },
    });
    if ctx.replay.is_none() {
        let path = format!("{}/evidence/{}.json", out_dir(), ctx.id);
        if let Err(e) = std::fs::write(&path, serde_json::to_string_pretty(&ev).unwrap()) {
            eprintln!("cannot write evidence {path}: {e}");
            return 2;
        }
    }

    println!(
        "{} {} seed={} evaluations={} distinct_nontrivial={} violations={} known={} inconclusive={} wall={:.1}s",
        ctx.id,
        ctx.tier.name(),
        ctx.seed,
        stats.evaluations,
        distinct_nontrivial,
        real_count,
        known_hits.values().map(|v| v.0).sum::<u64>(),
        stats.inconclusive,
        wall
    );
    for (k, v) in &stats.stopped_by {
        println!("  stage {k}: {v}");
    }
    for (sig, (n, what)) in &known_hits {
        println!("KNOWN-FINDING: property={} {} [signature={} matches={}]", ctx.id, what, sig, n);
    }
    for l in &lines {
        println!("{l}");
    }
    for e in stats.harness_errors.iter().take(5) {
        eprintln!("HARNESS ERROR: {}", e.chars().take(1500).collect::<String>());
    }
    if real_count > 0 {
        return 1;
    }
    if !stats.harness_errors.is_empty() {
        return 2;
    }
    if ctx.replay.is_none() && (stats.evaluations == 0 || distinct_nontrivial < meta.min_nontrivial.max(2)) {
        eprintln!("INCONCLUSIVE: the run observed too little (evaluations={}, distinct_nontrivial={})", stats.evaluations, distinct_nontrivial);
        return 2;
    }
    if ctx.replay.is_none() && stats.samples.is_empty() {
        eprintln!("INCONCLUSIVE: the run recorded no sample case");
        return 2;
    }
    if ctx.replay.is_none() && stats.inconclusive * 2 > stats.evaluations.max(1) {
        eprintln!("INCONCLUSIVE: most cases were inconclusive ({} of {})", stats.inconclusive, stats.evaluations);
        return 2;
    }
    0
}
