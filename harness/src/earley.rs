//! Reference recognizer: the AIDL grammar as a plain CFG + Earley recognizer.
use crate::reflex::K;
use std::collections::HashSet;

#[derive(Clone, Copy, Debug, PartialEq, Eq, Hash)]
pub enum S { T(K), N(usize) }

pub struct Grammar { pub names: Vec<String>, pub rules: Vec<(usize, Vec<S>)>, pub nullable: Vec<bool>, pub by_lhs: Vec<Vec<usize>> }

impl Grammar {
    pub fn nt(&self, name: &str) -> usize { self.names.iter().position(|n| n == name).unwrap_or_else(|| panic!("no nt {name}")) }
}

/// Tiny BNF reader: "A -> x Y | z ;" with terminals written as K names in a lookup table.
pub fn build(bnf: &str) -> Grammar {
    let term = |w: &str| -> Option<K> { Some(match w {
        "PACKAGE"=>K::Package,"IMPORT"=>K::Import,"INTERFACE"=>K::Interface,"PARCELABLE"=>K::Parcelable,"ENUM"=>K::Enum,"ONEWAY"=>K::Oneway,"CONST"=>K::Const,
        "DIRECTION"=>K::Direction,"VOID"=>K::Void,"PRIMITIVE"=>K::Primitive,"STRING"=>K::StringT,"CHAR_SEQUENCE"=>K::CharSequence,"LIST"=>K::List,"MAP"=>K::Map,
        "QUOTED_STRING"=>K::QuotedString,"BOOLEAN"=>K::Boolean,"ANNOTATION"=>K::Annotation,"IDENT"=>K::Ident,"INTEGER"=>K::Integer,"FLOAT"=>K::Float,
        "';'"=>K::Semi,"','"=>K::Comma,"'{'"=>K::LBrace,"'}'"=>K::RBrace,"'('"=>K::LParen,"')'"=>K::RParen,"'['"=>K::LBracket,"']'"=>K::RBracket,"'<'"=>K::Lt,"'>'"=>K::Gt,"'='"=>K::Eq,"'.'"=>K::Dot,
        _ => return None }) };
    let mut names: Vec<String> = Vec::new();
    let mut raw: Vec<(String, Vec<Vec<String>>)> = Vec::new();
    for stmt in bnf.split(" ;\n") {
        let stmt = stmt.trim(); if stmt.is_empty() { continue; }
        let (lhs, rhs) = stmt.split_once("->").expect("->");
        let lhs = lhs.trim().to_string();
        if !names.contains(&lhs) { names.push(lhs.clone()); }
        let alts: Vec<Vec<String>> = rhs.split('|').map(|a| a.split_whitespace().map(|s| s.to_string()).collect()).collect();
        raw.push((lhs, alts));
    }
    let mut rules = Vec::new();
    for (lhs, alts) in &raw {
        let l = names.iter().position(|n| n == lhs).unwrap();
        for alt in alts {
            let syms: Vec<S> = alt.iter().filter(|w| w.as_str() != "eps").map(|w| match term(w) { Some(k) => S::T(k), None => S::N(names.iter().position(|n| n == w).unwrap_or_else(|| panic!("unknown symbol {w}"))) }).collect();
            rules.push((l, syms));
        }
    }
    let mut nullable = vec![false; names.len()];
    loop { let mut ch = false; for (l, r) in &rules { if !nullable[*l] && r.iter().all(|s| matches!(s, S::N(n) if nullable[*n])) { nullable[*l] = true; ch = true; } } if !ch { break; } }
    let mut by_lhs = vec![Vec::new(); names.len()];
    for (i, (l, _)) in rules.iter().enumerate() { by_lhs[*l].push(i); }
    Grammar { names, rules, nullable, by_lhs }
}

pub const AIDL_BNF: &str = "
Aidl -> Package Imports DeclPs Item ;
Package -> PACKAGE QName ';' ;
Imports -> eps | Imports Import ;
Import -> IMPORT IDENT '.' QName ';' ;
QName -> IDENT | QName '.' IDENT ;
DeclPs -> eps | DeclPs DeclP ;
DeclP -> Anns PARCELABLE QName ';' ;
Item -> Interface | Parcelable | Enum ;
Interface -> Anns OptOneway INTERFACE IDENT '{' IElems '}' ;
OptOneway -> eps | ONEWAY ;
IElems -> eps | IElems IElem ;
IElem -> Method | Const ;
Parcelable -> Anns PARCELABLE IDENT '{' PElems '}' ;
PElems -> eps | PElems PElem ;
PElem -> Field | Const ;
Enum -> Anns ENUM IDENT '{' EnumElems '}' ;
EnumElems -> EnumElemsC | EnumElemsC EnumElem ;
EnumElemsC -> eps | EnumElemsC EnumElem ',' ;
EnumElem -> Anns IDENT | Anns IDENT '=' Scalar ;
Method -> Anns OptOneway Type IDENT '(' Args ')' OptCode ';' ;
OptCode -> eps | '=' INTEGER ;
Args -> ArgsC | ArgsC Arg ;
ArgsC -> eps | ArgsC Arg ',' ;
Arg -> OptDir Anns Type | OptDir Anns Type IDENT ;
OptDir -> eps | DIRECTION ;
Const -> Anns CONST Type IDENT '=' Value ';' ;
Field -> Anns Type IDENT ';' | Anns Type IDENT '=' Value ';' ;
Type -> VOID | PRIMITIVE | STRING | CHAR_SEQUENCE | Type '[' ']' | LIST '<' Type '>' | LIST | MAP '<' Type ',' Type '>' | MAP | QName ;
Anns -> eps | Anns Ann ;
Ann -> ANNOTATION | ANNOTATION '(' AnnParams ')' ;
AnnParams -> AnnParamsC | AnnParamsC AnnParam ;
AnnParamsC -> eps | AnnParamsC AnnParam ',' ;
AnnParam -> IDENT | IDENT '=' Scalar ;
Scalar -> INTEGER | FLOAT | QUOTED_STRING | BOOLEAN ;
Value -> Scalar | '{' '}' | '{' Values1 CommaValues OptComma '}' | IDENT '.' IDENT ;
Values1 -> Value | Values1 Value ;
CommaValues -> eps | CommaValues ',' Value ;
OptComma -> eps | ',' ;
";

#[derive(Clone, Copy, PartialEq, Eq, Hash, Debug)]
struct Item { rule: usize, dot: usize, origin: usize }

pub struct Outcome { pub accepted: bool, /// index of the first token that cannot extend a viable prefix (== toks.len() for EOF)
    pub error_at: Option<usize>, /// terminals that could have come at the error point (black-box expectation)
    pub expected: Vec<K> }

pub fn recognize(g: &Grammar, start: usize, toks: &[K]) -> Outcome {
    let mut sets: Vec<Vec<Item>> = vec![Vec::new()];
    let mut seen: Vec<HashSet<Item>> = vec![HashSet::new()];
    let add = |sets: &mut Vec<Vec<Item>>, seen: &mut Vec<HashSet<Item>>, i: usize, it: Item| { if seen[i].insert(it) { sets[i].push(it); } };
    for &r in &g.by_lhs[start] { add(&mut sets, &mut seen, 0, Item { rule: r, dot: 0, origin: 0 }); }
    for i in 0..=toks.len() {
        let mut j = 0;
        while j < sets[i].len() {
            let it = sets[i][j]; j += 1;
            let (lhs, rhs) = (&g.rules[it.rule].0, &g.rules[it.rule].1);
            if it.dot < rhs.len() {
                if let S::N(n) = rhs[it.dot] {
                    for &r in &g.by_lhs[n] { add(&mut sets, &mut seen, i, Item { rule: r, dot: 0, origin: i }); }
                    if g.nullable[n] { add(&mut sets, &mut seen, i, Item { rule: it.rule, dot: it.dot + 1, origin: it.origin }); }
                }
            } else {
                // completion
                let origin = it.origin;
                let mut k = 0;
                while k < sets[origin].len() {
                    let p = sets[origin][k]; k += 1;
                    let prhs = &g.rules[p.rule].1;
                    if p.dot < prhs.len() && prhs[p.dot] == S::N(*lhs) { add(&mut sets, &mut seen, i, Item { rule: p.rule, dot: p.dot + 1, origin: p.origin }); }
                }
            }
        }
        if i == toks.len() { break; }
        // scan
        sets.push(Vec::new()); seen.push(HashSet::new());
        let t = toks[i];
        let cur: Vec<Item> = sets[i].clone();
        for it in cur { let rhs = &g.rules[it.rule].1; if it.dot < rhs.len() && rhs[it.dot] == S::T(t) { add(&mut sets, &mut seen, i + 1, Item { rule: it.rule, dot: it.dot + 1, origin: it.origin }); } }
        if sets[i + 1].is_empty() {
            let mut exp: Vec<K> = sets[i].iter().filter_map(|it| { let rhs = &g.rules[it.rule].1; if it.dot < rhs.len() { if let S::T(k) = rhs[it.dot] { return Some(k); } } None }).collect();
            exp.sort(); exp.dedup();
            return Outcome { accepted: false, error_at: Some(i), expected: exp };
        }
    }
    let n = toks.len();
    let accepted = sets[n].iter().any(|it| g.rules[it.rule].0 == start && it.origin == 0 && it.dot == g.rules[it.rule].1.len());
    if accepted { Outcome { accepted: true, error_at: None, expected: vec![] } } else {
        let mut exp: Vec<K> = sets[n].iter().filter_map(|it| { let rhs = &g.rules[it.rule].1; if it.dot < rhs.len() { if let S::T(k) = rhs[it.dot] { return Some(k); } } None }).collect();
        exp.sort(); exp.dedup();
        Outcome { accepted: false, error_at: Some(n), expected: exp }
    }
}
