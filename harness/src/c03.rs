//! C03 — syntax verdicts agree with the grammar; failure is never silent.

use crate::libx;
use crate::prng::hash_str;
use crate::runner::*;
use crate::syncases;
use crate::synx;
use serde_json::json;
use std::time::Duration;

fn one_case(stage: &str, i: u64, label: &str, text: &str, st: &mut Stats) {
    let r = synx::reference(text);
    st.case(hash_str(text), !r.lex.toks.is_empty());
    st.inc(&format!("{stage}.{label}"));
    st.add("bytes", text.len() as u64);
    let one = match libx::parse_one(text) {
        Ok(o) => o,
        Err(p) => {
            st.violate(stage, i, "panic", format!("library panicked: {p}"), json!({"text": text, "panic": p}));
            return;
        }
    };
    let lib_ok = one.stage.ast.is_some() && one.stage.diagnostics.is_empty();
    st.inc(match (r.ref_ok, lib_ok) {
        (true, true) => "matrix.ref_ok__lib_ok",
        (false, false) => "matrix.ref_bad__lib_bad",
        (true, false) => "matrix.ref_ok__lib_bad(VIOLATION)",
        (false, true) => "matrix.ref_bad__lib_ok(VIOLATION)",
    });
    if let Some(e) = r.out.error_at {
        if e < r.kinds.len() {
            st.seen("first_error_token_kinds", r.kinds[e].terminal_name());
        } else {
            st.seen("first_error_token_kinds", "<EOF>");
        }
    }
    if r.lex.invalid_at.is_some() {
        st.inc("unlexable");
    }
    if !r.code_ok {
        st.inc("transact_code_overflow");
    }
    if one.stage.ast.is_some() && !one.stage.diagnostics.is_empty() {
        st.inc("recovered_with_tree");
    }
    if let Some(a) = &one.valid.ast {
        st.add("names_checked", synx::stored_names(a).len() as u64);
    }
    if st.want_sample() && !r.ref_ok && one.stage.ast.is_some() {
        st.sample(json!({"stage": stage, "label": label, "text": text, "diagnostics": libx::diags_brief(&one.stage.diagnostics)}));
    }
    let problems = synx::check_c03(&r, &one);
    if let Some((sig, msg)) = problems.first() {
        st.violate(
            stage,
            i,
            sig,
            msg.clone(),
            json!({"text": text, "label": label, "problems": problems.iter().map(|p| format!("{}: {}", p.0, p.1)).collect::<Vec<_>>(),
                   "stage_diagnostics": libx::diags_brief(&one.stage.diagnostics), "valid_diagnostics": libx::diags_brief(&one.valid.diagnostics),
                   "ref": {"first_bad_token": r.out.error_at, "unlexable_at": r.lex.invalid_at, "accepted": r.out.accepted, "codes_ok": r.code_ok}}),
        );
    }
}

pub fn run(ctx: &Ctx) -> i32 {
    let mut stats = Stats::default();
    // (a) bounded-exhaustive slot substitution
    let all_frames: Vec<usize> = (0..crate::mutate::FRAMES.len()).collect();
    let n2 = syncases::slot_space(&all_frames, 2);
    stats.merge(par_cases(ctx, "slots2", n2, Duration::from_secs(ctx.tier.pick(60, 300)), |i, rng, st| {
        if let Some((label, text)) = syncases::slot_case(i, &all_frames, 2, rng) {
            one_case("slots2", i, &label, &text, st);
        }
    }));
    let mut exhaustive_note = format!("slots2: every token-kind sequence of length <= 2 in each of {} frames ({} cases)", all_frames.len(), n2);
    if ctx.tier == Tier::Thorough {
        let frames3: Vec<usize> = vec![2, 4, 6, 7, 10, 11, 15, 17];
        let n3 = syncases::slot_space(&frames3, 3);
        stats.merge(par_cases(ctx, "slots3", n3, Duration::from_secs(900), |i, rng, st| {
            if let Some((label, text)) = syncases::slot_case(i, &frames3, 3, rng) {
                one_case("slots3", i, &label, &text, st);
            }
        }));
        exhaustive_note.push_str(&format!("; slots3: length <= 3 in 8 frames ({} cases)", n3));
    }
    // (b) random multi-edit mutation
    let n_mut = ctx.tier.pick(25_000u64, 600_000);
    stats.merge(par_cases(ctx, "mutations", n_mut, Duration::from_secs(ctx.tier.pick(40, 600)), |i, rng, st| {
        let (label, text) = syncases::mutation_case(rng);
        one_case("mutations", i, &label, &text, st);
    }));
    // (c) lexical cases
    let n_lex = syncases::lexical_directed_count() + ctx.tier.pick(8_000u64, 200_000);
    stats.merge(par_cases(ctx, "lexical", n_lex, Duration::from_secs(ctx.tier.pick(30, 300)), |i, rng, st| {
        let (label, text) = syncases::lexical_case(i, rng);
        one_case("lexical", i, &label, &text, st);
    }));

    let mut extra = serde_json::Map::new();
    extra.insert("bounded_exhaustive_part".into(), json!(exhaustive_note));
    finish(
        ctx,
        stats,
        Meta {
            rule: "texts = (a) every token-kind sequence up to the length bound substituted into each syntactic slot of a well-formed frame, (b) generated documents with 0-8 token insertions/deletions/replacements/swaps/duplications, (c) directed lexemes in 14 contexts and random character splices; each judged by the reference lexer + Earley recognizer (+ u32 transact-code rule); distinct by text hash, non-trivial if it contains at least one token".into(),
            assumptions: vec![
                "R-lex and the CFG in earley.rs are faithful transcriptions of src/aidl.lalrpop (validated: total agreement with the LR parser is itself part of what every run re-measures)".into(),
                "alphabet restricted to characters on which R-lex is exact (White_Space list; decimal digits ASCII, Arabic-Indic, fullwidth)".into(),
            ],
            exhaustive: false,
            extra,
            min_nontrivial: 100,
        },
    )
}
