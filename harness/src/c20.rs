//! C20 — syntax-error messages name every token the parser was prepared to accept.

use crate::gen::{self, GenCfg};
use crate::libx;
use crate::mutate;
use crate::prng::{hash_str, Rng};
use crate::reflex::ALL_KINDS;
use crate::runner::*;
use crate::syncases;
use serde_json::json;
use std::collections::BTreeSet;
use std::time::Duration;

pub const K1_SIG: &str = "K1:second-to-last-expected-token-dropped";

/// Terminal names found in the expectation part of a message (the text after the first newline).
pub fn names_in_message(msg: &str) -> Option<BTreeSet<String>> {
    msg.split_once('\n')?;
    // the whole message counts ("names nothing outside that set"), except the offending token's own text, which the
    // message quotes between the first pair of backticks up to the end of that line
    let rest_owned: String = match (msg.find('`'), msg.find('\n')) {
        (Some(a), Some(nl)) if a < nl => {
            let line = &msg[a + 1..nl];
            match line.rfind('`') {
                Some(b) => format!("{}{}", &msg[..a], &msg[a + 1 + b + 1..]),
                None => msg.to_string(),
            }
        }
        _ => msg.to_string(),
    };
    let rest: &str = &rest_owned;
    let terminals: BTreeSet<&'static str> = ALL_KINDS.iter().map(|k| k.terminal_name()).collect();
    let cs: Vec<char> = rest.chars().collect();
    let mut out = BTreeSet::new();
    let mut i = 0;
    while i < cs.len() {
        if cs[i] == '"' && i + 2 < cs.len() && cs[i + 2] == '"' {
            let lit: String = cs[i..i + 3].iter().collect();
            if terminals.contains(lit.as_str()) {
                out.insert(lit);
                i += 3;
                continue;
            }
        }
        if cs[i].is_ascii_uppercase() || cs[i] == '_' {
            let mut j = i;
            while j < cs.len() && (cs[j].is_ascii_uppercase() || cs[j] == '_') {
                j += 1;
            }
            // a run glued to lower-case letters is part of a word ("Expected"), not a terminal name
            let glued = (i > 0 && cs[i - 1].is_ascii_alphanumeric()) || (j < cs.len() && cs[j].is_ascii_alphanumeric());
            let w: String = cs[i..j].iter().collect();
            if !glued && terminals.contains(w.as_str()) {
                out.insert(w);
            }
            i = j;
            continue;
        }
        i += 1;
    }
    Some(out)
}

fn check_text(stage: &str, i: u64, text: &str, st: &mut Stats) {
    let one = match libx::parse_one(text) {
        Ok(o) => o,
        Err(p) => {
            st.violate(stage, i, "panic", format!("library panicked: {p}"), json!({"text": text, "panic": p}));
            return;
        }
    };
    let mut nontrivial = false;
    let mut used = vec![false; one.stage.diagnostics.len()];
    for rec in &one.records {
        if rec.variant != "UnrecognizedToken" && rec.variant != "UnrecognizedEOF" {
            continue;
        }
        // pair with the parse-stage diagnostic at the same offsets
        let Some(di) = one.stage.diagnostics.iter().enumerate().position(|(k, d)| {
            !used[k] && d.range.start.offset == rec.start && d.range.end.offset == rec.end && (d.message.contains("Unrecognized token") || d.message.contains("Unrecognized EOF"))
        }) else {
            st.inc("unpaired_records(inconclusive)");
            continue;
        };
        used[di] = true;
        let d = &one.stage.diagnostics[di];
        let expected: BTreeSet<String> = rec.expected.iter().cloned().collect();
        st.inc(&format!("expectation_set_size.{:02}", expected.len()));
        st.inc("pairs_compared");
        nontrivial = true;
        let named = match names_in_message(&d.message) {
            Some(n) => n,
            None => {
                if expected.is_empty() {
                    continue;
                }
                BTreeSet::new()
            }
        };
        for e in &expected {
            st.seen("expected_terminals_seen", e);
        }
        if named != expected {
            let missing: Vec<&String> = expected.difference(&named).collect();
            let extra: Vec<&String> = named.difference(&expected).collect();
            let k1 = rec.expected.len() >= 3 && extra.is_empty() && missing.len() == 1 && *missing[0] == rec.expected[rec.expected.len() - 2];
            let sig = if k1 { K1_SIG } else { "message-does-not-name-the-expectation-set" };
            st.violate(
                stage,
                i,
                sig,
                format!("message {:?} names {:?}; the parser expected {:?} (missing {:?}, extra {:?})", d.message, named, rec.expected, missing, extra),
                json!({"text": text, "message": d.message, "expected": rec.expected, "missing": missing, "extra": extra}),
            );
        } else if st.want_sample() && expected.len() >= 2 {
            st.sample(json!({"text": text, "message": d.message, "expected": rec.expected}));
        }
    }
    st.case(hash_str(text), nontrivial);
}

fn error_point_case(rng: &mut Rng) -> String {
    let cfg = GenCfg { max_members: 4, max_type_depth: 3, ..GenCfg::default() };
    let d = gen::doc(rng, &cfg);
    let r = gen::render(&d);
    let n = r.toks.len();
    let j = rng.below(n + 1);
    let mut pieces: Vec<String> = r.toks[..j].iter().map(|t| t.text.clone()).collect();
    let long_token = |rng: &mut Rng| -> String {
        let n = rng.range(40, 400);
        match rng.below(4) {
            0 => format!("id_{}", "x".repeat(n)),
            1 => format!("\"{}\"", "s é".repeat(n / 3)),
            2 => "7".repeat(n),
            _ => format!("@Ann{}", "n".repeat(n)),
        }
    };
    const MISCASED: &[&str] = &["cons", "conts", "interfac", "interfaces", "enumm", "enu", "packag", "imprt", "imports", "onewa", "parcelabl", "Interface", "INTERFACE", "ENUM", "Enum", "Parcelable", "Import", "OneWay", "Package", "PACKAGE", "Const", "TRUE", "False", "IN", "Out", "Void", "Int", "STRING", "list", "MAP"];
    match rng.below(6) {
        5 => {
            // a keyword in the wrong case / a misspelt keyword / a word the library's source mentions
            if rng.chance(1, 3) {
                match crate::vocab::ident(rng) {
                    Some(w) => pieces.push(w),
                    None => pieces.push(rng.pick_str(MISCASED).to_string()),
                }
            } else {
                pieces.push(rng.pick_str(MISCASED).to_string());
            }
            if rng.chance(1, 2) {
                pieces.extend(r.toks[j..].iter().map(|t| t.text.clone()));
            }
        }
        4 => {
            // a very long offending token (messages must still name the whole expectation set)
            pieces.push(long_token(rng));
            if rng.chance(1, 2) {
                pieces.extend(r.toks[j..].iter().map(|t| t.text.clone()));
            }
        }
        0 => {} // end of input after the prefix
        1 => {
            // unacceptable (or acceptable, then the error comes later) token, then end of input
            let k = *rng.pick(&ALL_KINDS);
            pieces.push(mutate::representative(k, rng).to_string());
        }
        _ => {
            // bad token inside the document: recovery continues into the rest
            let k = *rng.pick(&ALL_KINDS);
            pieces.push(mutate::representative(k, rng).to_string());
            pieces.extend(r.toks[j..].iter().map(|t| t.text.clone()));
        }
    }
    mutate::join(rng, &pieces, mutate::SEPS_SIMPLE)
}

pub const DIRECTED: &[&str] = &[
    "package p; oops",
    "package p; interface I { void f( ; }",
    "package p; interface I { void f() ",
    "package p; parcelable P { List<int ; }",
    "package p; enum E { A = }",
    "package",
    "",
    "package p; interface I { void f() = ; }",
    "package p; interface I { const int X = ; }",
    "package p; import ;",
    "package p; Interface I {}",
    "Package p;",
    "package p; ENUM E {}",
    "package p; interface I { String getName() cons; }",
    "package p; interfac I {}",
    "package p; interface I { void f() onewa; }",
];

pub fn run(ctx: &Ctx) -> i32 {
    let mut stats = Stats::default();
    stats.merge(par_cases(ctx, "directed", DIRECTED.len() as u64, Duration::from_secs(30), |i, _rng, st| {
        check_text("directed", i, DIRECTED[i as usize], st);
    }));
    let n = ctx.tier.pick(40_000u64, 600_000);
    stats.merge(par_cases(ctx, "error_points", n, Duration::from_secs(ctx.tier.pick(60, 600)), |i, rng, st| {
        let text = error_point_case(rng);
        check_text("error_points", i, &text, st);
    }));
    // error floods: more than 100 recovered errors in one document (the last messages must be as complete as the first)
    stats.merge(par_cases(ctx, "floods", ctx.tier.pick(150u64, 3_000), Duration::from_secs(ctx.tier.pick(40, 300)), |i, rng, st| {
        let kind = rng.below(3);
        let n = match crate::vocab::threshold(rng, 1200) {
            Some(t) if t > 50 && rng.chance(1, 3) => t + rng.below(20),
            _ => rng.range(101, 260),
        };
        let bad = rng.pick_str(&[";", "= =", "oops oops", "12", ")", "for", "@A (", "in in"]);
        let mut s = String::from(match kind {
            0 => "package p; interface I { ",
            1 => "package p; parcelable P { ",
            _ => "package p; enum E { ",
        });
        for k in 0..n {
            match kind {
                0 => s.push_str(&format!("void m{k}(); {bad} ; ")),
                1 => s.push_str(&format!("int f{k}; {bad} ; ")),
                _ => s.push_str(&format!("E{k}, {} , ", if bad.contains('(') || bad == ";" { "= =" } else { bad })),
            }
        }
        s.push('}');
        check_text("floods", i, &s, st);
    }));
    // every token-kind sequence of length <= 2 in every syntactic slot (the error points of C03's exhaustive stage)
    let frames: Vec<usize> = (0..crate::mutate::FRAMES.len()).collect();
    let n_slots = syncases::slot_space(&frames, 2);
    stats.merge(par_cases(ctx, "slots2", n_slots, Duration::from_secs(ctx.tier.pick(60, 300)), |i, rng, st| {
        if let Some((_, text)) = syncases::slot_case(i, &frames, 2, rng) {
            check_text("slots2", i, &text, st);
        }
    }));
    let n2 = ctx.tier.pick(15_000u64, 300_000);
    stats.merge(par_cases(ctx, "mutations", n2, Duration::from_secs(ctx.tier.pick(40, 400)), |i, rng, st| {
        let (_, text) = syncases::mutation_case(rng);
        check_text("mutations", i, &text, st);
    }));
    finish(
        ctx,
        stats,
        Meta {
            rule: "error points: every kind of (proper prefix of a generated document) + (end of input | one token of each kind, then end of input or the rest of the document), plus mutated documents; for every parser error (hook H2 record with its expectation list) the terminal names extracted from the message text are compared as a set with the recorded list; a case is non-trivial if at least one (record, message) pair was compared; distinct by text hash".into(),
            assumptions: vec![
                "hook H2 records the `expected` vector lalrpop hands to Diagnostic::from_parse_error before formatting".into(),
                "terminal names are recognised in the message by scanning the text after the first newline for the grammar's 34 terminal names, independent of separators and wording".into(),
                "known finding K1 is matched only when the expectation list has >= 3 entries, exactly its second-to-last entry is missing and nothing extra is named".into(),
            ],
            exhaustive: false,
            extra: Default::default(),
            min_nontrivial: 100,
        },
    )
}
