//! C02 — well-formed documents yield a tree that mirrors the source, whatever the layout.

use crate::earley;
use crate::gen::{self, GenCfg, LayoutStyle};
use crate::libx;
use crate::model::*;
use crate::prng::{hash_str, Rng};
use crate::runner::*;
use serde_json::json;
use std::time::Duration;

pub fn styles_for(k: usize) -> Vec<LayoutStyle> {
    let base = [LayoutStyle::Minimal, LayoutStyle::Wild, LayoutStyle::Crlf, LayoutStyle::Plain, LayoutStyle::Wild, LayoutStyle::Spaces, LayoutStyle::Wild, LayoutStyle::WildNoDoc];
    (0..k).map(|i| base[i % base.len()]).collect()
}

/// Compare the import / declared-parcelable path+name split with the model.
fn split_problem(a: &aidl_parser::ast::Aidl, d: &Doc) -> Option<String> {
    for (i, (ai, mi)) in a.imports.iter().zip(d.imports.iter()).enumerate() {
        let (path, name) = (mi[..mi.len() - 1].join("."), mi[mi.len() - 1].clone());
        if ai.path != path || ai.name != name {
            return Some(format!("import {i}: path/name {:?}/{:?}, expected {:?}/{:?}", ai.path, ai.name, path, name));
        }
    }
    for (i, (ai, mi)) in a.declared_parcelables.iter().zip(d.declared.iter()).enumerate() {
        let segs = &mi.segs;
        let (path, name) = (segs[..segs.len() - 1].join("."), segs[segs.len() - 1].clone());
        if ai.path != path || ai.name != name {
            return Some(format!("declared parcelable {i}: path/name {:?}/{:?}, expected {:?}/{:?}", ai.path, ai.name, path, name));
        }
    }
    None
}

pub fn run(ctx: &Ctx) -> i32 {
    let n_docs = ctx.tier.pick(12_000u64, 200_000);
    let k_layouts = ctx.tier.pick(4usize, 12);
    let budget = Duration::from_secs(ctx.tier.pick(70, 900));
    let g = earley::build(earley::AIDL_BNF);
    let start = g.nt("Aidl");

    let stats = par_cases(ctx, "docs", n_docs, budget, |i, rng, st| {
        let cfg = GenCfg { max_members: if rng.chance(1, 10) { 14 } else { 6 }, big: true, deep_types: true, repeat_method_names: true, ..GenCfg::default() };
        let d = gen::doc(rng, &cfg);
        let r = gen::render(&d);
        // the generator must produce well-formed documents (harness self-check, not a verdict)
        let kinds: Vec<_> = r.toks.iter().map(|t| t.kind).collect();
        let out = earley::recognize(&g, start, &kinds);
        assert!(out.accepted, "generator produced a document the reference grammar rejects: {:?}", r.toks.iter().map(|t| t.text.clone()).collect::<Vec<_>>().join(" "));
        for a in &r.alts {
            st.seen("grammar_alternatives", a);
        }
        st.add("tokens", r.toks.len() as u64);
        let want_pre = p_doc_model(&d, false);
        let want_post = p_doc_model(&d, true);
        let mut first_proj: Option<PDoc> = None;
        for (li, style) in styles_for(k_layouts).into_iter().enumerate() {
            let mut lrng = rng.fork();
            let laid = gen::layout(&r.toks, &mut lrng, style, &r.forced);
            assert!(gen::layout_is_faithful(&r.toks, &laid), "layout is not faithful to the token table: {:?}", laid.text);
            st.add("separator_free_token_pairs", laid.abutting as u64);
            st.inc(&format!("layout.{style:?}"));
            st.case(hash_str(&laid.text), d.item.members.len() > 0 || !d.imports.is_empty());
            st.add("bytes", laid.text.len() as u64);
            if st.want_sample() && li == 1 {
                st.sample(json!({"text": laid.text, "style": format!("{style:?}")}));
            }
            let one = match libx::parse_one(&laid.text) {
                Ok(o) => o,
                Err(p) => {
                    st.violate("docs", i, "panic", format!("library panicked on a well-formed document: {p}"), json!({"text": laid.text, "panic": p}));
                    continue;
                }
            };
            let mut problems: Vec<String> = Vec::new();
            if !one.stage.diagnostics.is_empty() {
                problems.push(format!("syntax diagnostics on a well-formed document: {:?}", libx::diags_brief(&one.stage.diagnostics)));
            }
            match (&one.stage.ast, &one.valid.ast) {
                (Some(pre), Some(post)) => {
                    let got_pre = p_doc_ast(pre);
                    if got_pre != want_pre {
                        problems.push(format!("parse-stage tree does not mirror the document:\n got  {:?}\n want {:?}", got_pre, want_pre));
                    }
                    let got_post = p_doc_ast(post);
                    if got_post != want_post {
                        problems.push(format!("validated tree does not mirror the document:\n got  {:?}\n want {:?}", got_post, want_post));
                    }
                    if let Some(p) = split_problem(pre, &d) {
                        problems.push(p);
                    }
                    match &first_proj {
                        None => first_proj = Some(got_post),
                        Some(fp) => {
                            st.inc("layout_pairs_compared");
                            if *fp != got_post {
                                problems.push("two layouts of the same token sequence gave different trees".to_string());
                            }
                        }
                    }
                }
                _ => problems.push("no tree for a well-formed document".to_string()),
            }
            if !problems.is_empty() {
                let sig = if problems[0].starts_with("syntax diag") {
                    "syntax-diagnostic"
                } else if problems[0].starts_with("no tree") {
                    "no-tree"
                } else {
                    "tree-mismatch"
                };
                st.violate("docs", i, sig, problems[0].chars().take(600).collect(), json!({"text": laid.text, "layout": format!("{style:?}"), "problems": problems}));
            }
        }
    });

    finish(
        ctx,
        stats,
        Meta {
            rule: "documents drawn from the typed document model (all item kinds, member forms, types nested <= 4, values, annotations, trailing commas), each rendered in k layouts (minimal separators, spaces, LF, CRLF, Unicode whitespace, line/block/doc comments with arbitrary text); a case is one (document, layout) text, distinct by text hash, non-trivial if the item has members or the file has imports".into(),
            assumptions: vec![
                "the document model -> token table renderer and the position-free projection are the oracle; the generator's output is cross-checked against the reference grammar (Earley) and the reference lexer on every case".into(),
                "type kinds are ignored here (C05); documentation is ignored here (C18)".into(),
            ],
            exhaustive: false,
            extra: Default::default(),
            min_nontrivial: 10,
        },
    )
}
