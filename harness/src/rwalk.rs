//! R-walk: reference pre-order traversal of a tree (array element before the
//! array, otherwise a node before its parameters), producing the expected
//! symbol / type / method / argument sequences as node addresses.

use aidl_parser::ast;
use aidl_parser::symbol::Symbol;

#[derive(Clone, Copy, Debug, PartialEq, Eq, Hash, PartialOrd, Ord)]
pub enum SK {
    Package,
    Import,
    Interface,
    Parcelable,
    Enum,
    Method,
    Arg,
    Const,
    Field,
    EnumElement,
    Type,
}

pub const ALL_SK: [SK; 11] = [SK::Package, SK::Import, SK::Interface, SK::Parcelable, SK::Enum, SK::Method, SK::Arg, SK::Const, SK::Field, SK::EnumElement, SK::Type];

#[derive(Clone, Debug, PartialEq, Eq)]
pub struct Visit {
    pub kind: SK,
    pub addr: usize,
    /// the node's name range (symbol_range field of the node itself)
    pub name_range: ast::Range,
    pub name: Option<String>,
    /// 0 = item, 1 = direct member of the item, 2 = everything else (package, imports, args, types)
    pub level: u8,
}

pub fn of_symbol(s: &Symbol) -> (SK, usize) {
    match s {
        Symbol::Package(p) => (SK::Package, *p as *const _ as usize),
        Symbol::Import(i) => (SK::Import, *i as *const _ as usize),
        Symbol::Interface(i, _) => (SK::Interface, *i as *const _ as usize),
        Symbol::Parcelable(p, _) => (SK::Parcelable, *p as *const _ as usize),
        Symbol::Enum(e, _) => (SK::Enum, *e as *const _ as usize),
        Symbol::Method(m, _) => (SK::Method, *m as *const _ as usize),
        Symbol::Arg(a, _) => (SK::Arg, *a as *const _ as usize),
        Symbol::Const(c, _) => (SK::Const, *c as *const _ as usize),
        Symbol::Field(f, _) => (SK::Field, *f as *const _ as usize),
        Symbol::EnumElement(e, _) => (SK::EnumElement, *e as *const _ as usize),
        Symbol::Type(t) => (SK::Type, *t as *const _ as usize),
    }
}

fn ty(t: &ast::Type, out: &mut Vec<Visit>) {
    let me = Visit { kind: SK::Type, addr: t as *const _ as usize, name_range: t.symbol_range.clone(), name: Some(t.name.clone()), level: 2 };
    if t.kind == ast::TypeKind::Array {
        for g in &t.generic_types {
            ty(g, out);
        }
        out.push(me);
    } else {
        out.push(me);
        for g in &t.generic_types {
            ty(g, out);
        }
    }
}

fn konst(c: &ast::Const, out: &mut Vec<Visit>) {
    out.push(Visit { kind: SK::Const, addr: c as *const _ as usize, name_range: c.symbol_range.clone(), name: Some(c.name.clone()), level: 1 });
    ty(&c.const_type, out);
}

/// Full expected visit sequence (filter level All).
pub fn walk_all(a: &ast::Aidl) -> Vec<Visit> {
    let mut out = Vec::new();
    out.push(Visit { kind: SK::Package, addr: &a.package as *const _ as usize, name_range: a.package.symbol_range.clone(), name: Some(a.package.name.clone()), level: 2 });
    for i in &a.imports {
        out.push(Visit { kind: SK::Import, addr: i as *const _ as usize, name_range: i.symbol_range.clone(), name: Some(i.get_qualified_name()), level: 2 });
    }
    match &a.item {
        ast::Item::Interface(i) => {
            out.push(Visit { kind: SK::Interface, addr: i as *const _ as usize, name_range: i.symbol_range.clone(), name: Some(i.name.clone()), level: 0 });
            for e in &i.elements {
                match e {
                    ast::InterfaceElement::Method(m) => {
                        out.push(Visit { kind: SK::Method, addr: m as *const _ as usize, name_range: m.symbol_range.clone(), name: Some(m.name.clone()), level: 1 });
                        ty(&m.return_type, &mut out);
                        for arg in &m.args {
                            out.push(Visit { kind: SK::Arg, addr: arg as *const _ as usize, name_range: arg.symbol_range.clone(), name: arg.name.clone(), level: 2 });
                            ty(&arg.arg_type, &mut out);
                        }
                    }
                    ast::InterfaceElement::Const(c) => konst(c, &mut out),
                }
            }
        }
        ast::Item::Parcelable(p) => {
            out.push(Visit { kind: SK::Parcelable, addr: p as *const _ as usize, name_range: p.symbol_range.clone(), name: Some(p.name.clone()), level: 0 });
            for e in &p.elements {
                match e {
                    ast::ParcelableElement::Field(f) => {
                        out.push(Visit { kind: SK::Field, addr: f as *const _ as usize, name_range: f.symbol_range.clone(), name: Some(f.name.clone()), level: 1 });
                        ty(&f.field_type, &mut out);
                    }
                    ast::ParcelableElement::Const(c) => konst(c, &mut out),
                }
            }
        }
        ast::Item::Enum(e) => {
            out.push(Visit { kind: SK::Enum, addr: e as *const _ as usize, name_range: e.symbol_range.clone(), name: Some(e.name.clone()), level: 0 });
            for el in &e.elements {
                out.push(Visit { kind: SK::EnumElement, addr: el as *const _ as usize, name_range: el.symbol_range.clone(), name: Some(el.name.clone()), level: 1 });
            }
        }
    }
    out
}

/// expected sequence at a filter level: 0 = ItemsOnly, 1 = ItemsAndItemElements, 2 = All
pub fn walk_level(a: &ast::Aidl, level: u8) -> Vec<Visit> {
    walk_all(a).into_iter().filter(|v| v.level <= level).collect()
}

pub fn types_in_order(a: &ast::Aidl) -> Vec<usize> {
    walk_all(a).into_iter().filter(|v| v.kind == SK::Type).map(|v| v.addr).collect()
}

pub fn methods_in_order(a: &ast::Aidl) -> Vec<usize> {
    walk_all(a).into_iter().filter(|v| v.kind == SK::Method).map(|v| v.addr).collect()
}

pub fn args_in_order(a: &ast::Aidl) -> Vec<(usize, usize)> {
    let mut out = Vec::new();
    if let ast::Item::Interface(i) = &a.item {
        for e in &i.elements {
            if let ast::InterfaceElement::Method(m) = e {
                for arg in &m.args {
                    out.push((m as *const _ as usize, arg as *const _ as usize));
                }
            }
        }
    }
    out
}

/// inclusive lexicographic containment of a (line, col) position in a range
pub fn contains_lc(r: &ast::Range, lc: (usize, usize)) -> bool {
    r.start.line_col <= lc && lc <= r.end.line_col
}
