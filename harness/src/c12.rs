//! C12 — results depend only on the surviving contents, not on the edit history.
//! C13 — a file's result depends only on its own text and the kinds of what it imports.

use crate::gen::{self, GenCfg};
use crate::libx;
use crate::model::*;
use crate::mutate;
use crate::proj::{self, ProjCfg};
use crate::prng::{hash_str, Rng};
use crate::runner::*;
use aidl_parser::{ParseFileResult, Parser};
use serde_json::json;
use std::collections::{BTreeMap, HashMap};
use std::path::PathBuf;
use std::time::Duration;

type PRes = HashMap<PathBuf, ParseFileResult<PathBuf>>;

#[derive(Clone, Debug)]
enum Op {
    Add(usize, usize),
    AddFile(usize, usize),
    Remove(usize),
    Validate,
    AddFileMissing(usize),
    AddFileDir(usize),
    AddFileBadUtf8(usize),
}

struct World {
    dir: PathBuf,
    ids: Vec<PathBuf>,
    contents: Vec<String>,
}

impl World {
    fn new(tag: &str, n_ids: usize, contents: Vec<String>) -> World {
        let dir = PathBuf::from(format!("{}/work/c12-{}-{}", out_dir(), std::process::id(), tag));
        let _ = std::fs::create_dir_all(&dir);
        // ids are paths exactly as a caller may spell them: plain, through `sub/..`, through `./`
        let _ = std::fs::create_dir_all(dir.join("sub"));
        let ids = (0..n_ids)
            .map(|i| match i % 4 {
                0 => dir.join("sub").join("..").join(format!("f{i}.aidl")),
                1 => dir.join(format!("f{i}.aidl")),
                2 => dir.join(".").join(format!("f{i}.aidl")),
                _ => {
                    // a file name that is not UTF-8 (legal on Unix)
                    use std::os::unix::ffi::OsStrExt;
                    let mut name: Vec<u8> = vec![b'c', b'a', b'f', 0xE9];
                    name.extend_from_slice(format!("{i}.aidl").as_bytes());
                    dir.join(std::ffi::OsStr::from_bytes(&name))
                }
            })
            .collect();
        World { dir, ids, contents }
    }
    fn cleanup(&self) {
        let _ = std::fs::remove_dir_all(&self.dir);
    }
}

fn fresh_reference(w: &World, model: &BTreeMap<usize, usize>) -> PRes {
    let mut p: Parser<PathBuf> = Parser::new();
    for (id, c) in model {
        p.add_content(w.ids[*id].clone(), &w.contents[*c]);
    }
    p.validate()
}

fn compare_maps(got: &PRes, want: &PRes) -> Option<String> {
    if got.len() != want.len() {
        let g: Vec<_> = got.keys().map(|k| k.file_name().unwrap().to_string_lossy().to_string()).collect();
        let w: Vec<_> = want.keys().map(|k| k.file_name().unwrap().to_string_lossy().to_string()).collect();
        return Some(format!("result holds ids {g:?}, a fresh parser with the surviving contents holds {w:?}"));
    }
    for (k, w) in want {
        let Some(g) = got.get(k) else { return Some(format!("id {:?} missing from the result", k.file_name().unwrap())) };
        if g.id != *k {
            return Some(format!("result under {:?} is tagged {:?}", k.file_name().unwrap(), g.id.file_name()));
        }
        if g.ast != w.ast {
            return Some(format!("id {:?}: tree differs from what a fresh parser returns", k.file_name().unwrap()));
        }
        if !libx::same_multiset(g, w) {
            return Some(format!("id {:?}: diagnostics differ from what a fresh parser returns: {:?} vs {:?}", k.file_name().unwrap(), libx::diags_brief(&g.diagnostics), libx::diags_brief(&w.diagnostics)));
        }
    }
    None
}

/// Run one history; returns the first problem (step index, description).
fn run_history(w: &World, ops: &[Op], memo: Option<&mut HashMap<Vec<(usize, usize)>, PRes>>, st: &mut Stats, start: &BTreeMap<usize, usize>) -> Option<(usize, String)> {
    let mut p: Parser<PathBuf> = Parser::new();
    let mut model: BTreeMap<usize, usize> = BTreeMap::new();
    for (id, c) in start {
        p.add_content(w.ids[*id].clone(), &w.contents[*c]);
        model.insert(*id, *c);
    }
    let mut memo = memo;
    for (si, op) in ops.iter().enumerate() {
        match op {
            Op::Add(id, c) => {
                st.inc(if model.contains_key(id) { "op.replace" } else { "op.add" });
                p.add_content(w.ids[*id].clone(), &w.contents[*c]);
                model.insert(*id, *c);
            }
            Op::AddFile(id, c) => {
                st.inc("op.add_file_ok");
                if write_with_fixed_mtime(&w.ids[*id], w.contents[*c].as_bytes()).is_err() {
                    st.inconclusive += 1;
                    return None;
                }
                match p.add_file(&w.ids[*id]) {
                    Ok(()) => {}
                    Err(e) => return Some((si, format!("add_file on a readable UTF-8 file failed: {e}"))),
                }
                model.insert(*id, *c);
            }
            Op::Remove(id) => {
                st.inc(if model.contains_key(id) { "op.remove_present" } else { "op.remove_absent" });
                p.remove_content(w.ids[*id].clone());
                model.remove(id);
            }
            Op::Validate => {
                st.inc("op.validate");
                let _ = p.validate();
            }
            Op::AddFileMissing(id) => {
                st.inc("op.add_file_missing");
                let path = w.dir.join(format!("missing-{id}.aidl"));
                let _ = std::fs::remove_file(&path);
                if p.add_file(&path).is_ok() {
                    return Some((si, "add_file on a missing file returned Ok".into()));
                }
            }
            Op::AddFileDir(id) => {
                st.inc("op.add_file_directory");
                let path = w.dir.join(format!("dir-{id}"));
                let _ = std::fs::create_dir_all(&path);
                if p.add_file(&path).is_ok() {
                    return Some((si, "add_file on a directory returned Ok".into()));
                }
            }
            Op::AddFileBadUtf8(id) => {
                st.inc("op.add_file_invalid_utf8");
                // the file sits at the path of an id that may be present: a failed load must not change it
                let path = w.ids[*id].clone();
                // same length as the fixed contents, same time stamp as every other write
                let mut bad = vec![b'p', b'a', 0xff, 0xfe, b'c', 0xc3, 0x28];
                let want = w.contents.first().map_or(7, |c| c.len());
                while bad.len() < want {
                    bad.push(b' ');
                }
                if write_with_fixed_mtime(&path, &bad).is_err() {
                    st.inconclusive += 1;
                    return None;
                }
                if p.add_file(&path).is_ok() {
                    return Some((si, "add_file on a file that is not UTF-8 returned Ok".into()));
                }
            }
        }
        // after every step: compare with a fresh parser built from the abstract map
        let got = p.validate();
        let key: Vec<(usize, usize)> = model.iter().map(|(a, b)| (*a, *b)).collect();
        let want_owned;
        let want: &PRes = match memo.as_deref_mut() {
            Some(m) => {
                if !m.contains_key(&key) {
                    let v = fresh_reference(w, &model);
                    m.insert(key.clone(), v);
                }
                &m[&key]
            }
            None => {
                want_owned = fresh_reference(w, &model);
                &want_owned
            }
        };
        st.inc("comparisons_with_fresh_parser");
        st.seen("abstract_states_visited", &format!("{key:?}"));
        if let Some(d) = compare_maps(&got, want) {
            return Some((si, d));
        }
        // validating never changes what a later validation returns
        let again = p.validate();
        if let Some(d) = compare_maps(&again, &got) {
            return Some((si, format!("a second validate() differs from the first: {d}")));
        }
    }
    None
}

/// All four fixed contents are padded to the same byte length and every file the harness writes gets the same
/// modification time: a reload must be decided by the file's text, not by its size or time stamp (`cp -p`,
/// `rsync -t`, coarse-grained file systems produce exactly this).
fn fixed_contents() -> Vec<String> {
    let n = FIXED_CONTENTS_RAW.iter().map(|s| s.len()).max().unwrap_or(0);
    FIXED_CONTENTS_RAW.iter().map(|s| format!("{s}{}", " ".repeat(n - s.len()))).collect()
}

fn write_with_fixed_mtime(path: &std::path::Path, bytes: &[u8]) -> std::io::Result<()> {
    std::fs::write(path, bytes)?;
    let f = std::fs::OpenOptions::new().write(true).open(path)?;
    f.set_modified(std::time::UNIX_EPOCH + Duration::from_secs(1_600_000_000))
}

const FIXED_CONTENTS_RAW: &[&str] = &[
    "package a; import b.P; import c.E; import d.Gone; interface I { void f(in P p, E e, in List<P> l, Q q); }",
    "package b; parcelable P { int x; List<String> names; }",
    "package c; enum E { A = 1, B }",
    "package x interface {",
];

fn decode_ops(mut idx: u64, len: usize, alphabet: &[Op]) -> Vec<Op> {
    let n = alphabet.len() as u64;
    let mut v = Vec::new();
    for _ in 0..len {
        v.push(alphabet[(idx % n) as usize].clone());
        idx /= n;
    }
    v
}

fn op_alphabet() -> Vec<Op> {
    let mut a = Vec::new();
    for id in 0..3 {
        for c in 0..4 {
            // id 0 is loaded from disk (add_file), ids 1 and 2 through add_content
            a.push(if id == 0 { Op::AddFile(id, c) } else { Op::Add(id, c) });
        }
    }
    for id in 0..3 {
        a.push(Op::Remove(id));
    }
    a.push(Op::Validate);
    a.push(Op::AddFileMissing(1));
    a.push(Op::AddFileBadUtf8(2));
    a.push(Op::AddFileDir(0));
    a
}

fn sum_pow(n: u64, max_len: usize) -> u64 {
    let mut t = 0;
    let mut c = n;
    for _ in 1..=max_len {
        t += c;
        c *= n;
    }
    t
}

fn decode_len(mut idx: u64, n: u64, max_len: usize) -> Option<(usize, u64)> {
    let mut c = n;
    for len in 1..=max_len {
        if idx < c {
            return Some((len, idx));
        }
        idx -= c;
        c *= n;
    }
    None
}

fn thread_tag() -> String {
    format!("{:?}", std::thread::current().id()).replace(|c: char| !c.is_ascii_digit(), "")
}

pub fn run_c12(ctx: &Ctx) -> i32 {
    let mut stats = Stats::default();
    let alphabet = op_alphabet();
    let n_ops = alphabet.len() as u64;
    // abstract states: each of 3 ids absent or holding one of 4 contents = 125 states
    let n_states = 125u64;
    let len_from_states = ctx.tier.pick(2usize, 3);
    let per_state = sum_pow(n_ops, len_from_states);
    let total = n_states * per_state;
    let exhaustive_stage = |stage: &'static str, total: u64, secs: u64, f: &(dyn Fn(u64) -> Option<(BTreeMap<usize, usize>, Vec<Op>)> + Sync)| -> Stats {
        par_cases(ctx, stage, total, Duration::from_secs(secs), |i, _rng, st| {
            thread_local! { static WORLD: std::cell::RefCell<Option<(World, HashMap<Vec<(usize, usize)>, PRes>)>> = std::cell::RefCell::new(None); }
            let Some((start, ops)) = f(i) else { return };
            WORLD.with(|wc| {
                let mut wc = wc.borrow_mut();
                if wc.is_none() {
                    *wc = Some((World::new(&thread_tag(), 3, fixed_contents()), HashMap::new()));
                }
                let (w, memo) = wc.as_mut().unwrap();
                st.case(hash_str(&format!("{start:?}{ops:?}")), true);
                st.inc(&format!("history_length.{}", ops.len()));
                let r = crate::runner::lib(std::panic::AssertUnwindSafe(|| run_history(w, &ops, Some(memo), st, &start)));
                match r {
                    Ok(None) => {}
                    Ok(Some((step, what))) => st.violate(stage, i, "history-dependence", format!("after step {step} of {:?} (from state {:?}): {what}", ops, start), json!({"start_state": format!("{start:?}"), "ops": format!("{ops:?}"), "step": step, "contents": FIXED_CONTENTS_RAW, "what": what})),
                    Err(p) => st.violate(stage, i, "panic", format!("library panicked: {p}"), json!({"ops": format!("{ops:?}")})),
                }
                if st.want_sample() && ops.len() >= 2 {
                    st.sample(json!({"start_state(id->content index)": format!("{start:?}"), "ops": format!("{ops:?}")}));
                }
            });
        })
    };
    // (a) from every abstract state, all histories up to len_from_states
    stats.merge(exhaustive_stage("from_every_state", total, ctx.tier.pick(100, 1500), &|i| {
        let s = i / per_state;
        let (len, idx) = decode_len(i % per_state, n_ops, len_from_states)?;
        let mut start = BTreeMap::new();
        let mut x = s;
        for id in 0..3usize {
            let c = (x % 5) as usize;
            x /= 5;
            if c > 0 {
                start.insert(id, c - 1);
            }
        }
        Some((start, decode_ops(idx, len, &alphabet)))
    }));
    // (b) from the empty state, all histories up to length 3 (quick) / 4 (thorough)
    let len_empty = ctx.tier.pick(3usize, 4);
    let total_b = sum_pow(n_ops, len_empty);
    stats.merge(exhaustive_stage("from_empty", total_b, ctx.tier.pick(60, 1500), &|i| {
        let (len, idx) = decode_len(i, n_ops, len_empty)?;
        Some((BTreeMap::new(), decode_ops(idx, len, &alphabet)))
    }));
    // (c) random long histories over generated projects
    let n_rand = ctx.tier.pick(400u64, 15_000);
    stats.merge(par_cases(ctx, "random_histories", n_rand, Duration::from_secs(ctx.tier.pick(60, 1500)), |i, rng, st| {
        let cfg = ProjCfg { allow_collisions: false, allow_ambiguous: false, max_members: 3, max_type_depth: 2, max_files: 5, ..ProjCfg::default() };
        let pr = proj::project(rng, &cfg);
        // contents: per id a few versions that keep the key (body regenerated), plus garbage
        let n_ids = pr.files.len();
        let mut contents: Vec<String> = Vec::new();
        let mut per_id: Vec<Vec<usize>> = Vec::new();
        for f in &pr.files {
            let mut mine = vec![contents.len()];
            contents.push(f.text.clone());
            for _ in 0..2 {
                let mut d = f.doc.clone();
                let gcfg = GenCfg { kind: Some(d.item.kind), max_members: 3, max_type_depth: 2, ..GenCfg::default() };
                let name = d.item.name.clone();
                d.item = gen::item(rng, &gcfg);
                d.item.name = name;
                mine.push(contents.len());
                contents.push(proj::render_text(&d, rng));
            }
            mine.push(contents.len());
            contents.push(mutate::token_soup(rng, 10));
            // the same text with different leading / trailing trivia (positions differ, nothing else)
            mine.push(contents.len());
            contents.push(format!("{}{}", rng.pick_str(&["\n", " ", "\n\n  ", "/* moved */ ", "\t"]), f.text));
            mine.push(contents.len());
            contents.push(format!("{}{}", f.text, rng.pick_str(&["\n", "  ", " // end", "\n\n"])));
            per_id.push(mine);
        }
        let mut w = World::new(&format!("{}-r{}", thread_tag(), i), n_ids, contents);
        if rng.chance(1, 2) {
            // a real source tree: <root>/<package path>/<ItemName>.aidl (tools that look around on disk find neighbours)
            for (k, f) in pr.files.iter().enumerate() {
                let mut p = w.dir.join("src");
                for seg in &f.doc.package {
                    p = p.join(seg);
                }
                let _ = std::fs::create_dir_all(&p);
                w.ids[k] = p.join(format!("{}.aidl", f.doc.item.name));
                // the files exist on disk from the start (whether or not the parser has been told about them)
                let _ = write_with_fixed_mtime(&w.ids[k], f.text.as_bytes());
            }
            st.inc("histories_in_a_package_directory_tree");
        }
        let len = rng.range(5, ctx.tier.pick(25, 40));
        let mut ops = Vec::new();
        for _ in 0..len {
            let id = rng.below(n_ids);
            if rng.chance(1, 6) {
                // base text, then (maybe after a validate) a trivia-only variant of it, or the other way round
                let (a, b) = if rng.chance(1, 2) { (0, 4 + rng.below(2)) } else { (4 + rng.below(2), 0) };
                ops.push(if rng.chance(1, 3) { Op::AddFile(id, per_id[id][a]) } else { Op::Add(id, per_id[id][a]) });
                if rng.chance(1, 2) {
                    ops.push(Op::Validate);
                }
                ops.push(if rng.chance(1, 3) { Op::AddFile(id, per_id[id][b]) } else { Op::Add(id, per_id[id][b]) });
                continue;
            }
            ops.push(match rng.below(12) {
                0..=4 => Op::Add(id, *rng.pick(&per_id[id])),
                5 => Op::AddFile(id, *rng.pick(&per_id[id])),
                6 | 7 => Op::Remove(id),
                8 => Op::Validate,
                9 => Op::AddFileMissing(id),
                10 => Op::AddFileBadUtf8(id),
                _ => Op::AddFileDir(id),
            });
        }
        st.case(hash_str(&format!("{:?}{:?}", w.contents, ops)), true);
        st.inc(&format!("history_length.{}", (ops.len() / 10) * 10));
        let r = crate::runner::lib(std::panic::AssertUnwindSafe(|| run_history(&w, &ops, None, st, &BTreeMap::new())));
        match r {
            Ok(None) => {}
            Ok(Some((step, what))) => st.violate("random_histories", i, "history-dependence", format!("after step {step}: {what}"), json!({"ops": format!("{ops:?}"), "contents": w.contents, "step": step, "what": what})),
            Err(p) => st.violate("random_histories", i, "panic", format!("library panicked: {p}"), json!({"ops": format!("{ops:?}"), "contents": w.contents})),
        }
        w.cleanup();
    }));
    // (d) a file whose reported size is not what a read delivers (procfs reports 0): loading it must equal adding its text
    stats.merge(par_cases(ctx, "procfs_file", 4, Duration::from_secs(30), |i, _rng, st| {
        let path = PathBuf::from(["/proc/self/comm", "/proc/version", "/proc/self/comm", "/proc/sys/kernel/ostype"][i as usize]);
        let Ok(text) = std::fs::read_to_string(&path) else {
            st.inc("procfs.unreadable(skipped)");
            return;
        };
        st.case(hash_str(&format!("{path:?}")), true);
        st.inc("op.add_file_procfs");
        let r = crate::runner::lib(|| {
            let mut p: Parser<PathBuf> = Parser::new();
            let loaded = p.add_file(&path).is_ok();
            let got = p.validate();
            let mut q: Parser<PathBuf> = Parser::new();
            q.add_content(path.clone(), &text);
            (loaded, compare_maps(&got, &q.validate()))
        });
        match r {
            Ok((true, None)) => {}
            Ok((false, _)) => st.violate("procfs_file", i, "history-dependence", format!("add_file on the readable UTF-8 file {path:?} failed"), json!({"path": format!("{path:?}")})),
            Ok((true, Some(d))) => st.violate("procfs_file", i, "history-dependence", format!("add_file({path:?}) is not equivalent to add_content(path, text): {d}"), json!({"path": format!("{path:?}"), "text": text})),
            Err(p) => st.violate("procfs_file", i, "panic", format!("library panicked: {p}"), json!({"path": format!("{path:?}")})),
        }
    }));
    // remove the per-thread scratch directories of the exhaustive stages
    if let Ok(rd) = std::fs::read_dir(format!("{}/work", out_dir())) {
        for e in rd.flatten() {
            if e.file_name().to_string_lossy().starts_with(&format!("c12-{}-", std::process::id())) {
                let _ = std::fs::remove_dir_all(e.path());
            }
        }
    }
    let mut extra = serde_json::Map::new();
    extra.insert("exhaustive_part".into(), json!(format!("stage from_every_state: from each of the 125 abstract states (3 ids x {{absent, 4 contents}}) every history of length <= {len_from_states} over {n_ops} operations ({total} histories); stage from_empty: every history of length <= {len_empty} from the empty parser ({total_b} histories)")));
    finish(
        ctx,
        stats,
        Meta {
            rule: "histories over {add/replace(id, content), add_file ok (id 0 is always loaded from a real file), remove(id) present or absent, validate, add_file on a missing file / a directory / a file that is not UTF-8}; after EVERY step validate() is compared with a fresh parser built from the abstract id -> content map (trees by equality, diagnostics as multisets, ids and id tags), and a second validate() with the first; exhaustive stages use 3 ids x 4 fixed contents (interface importing the others, parcelable, enum, garbage), random stage uses generated projects with per-id content versions; every history non-trivial, distinct by (start state, operations)".into(),
            assumptions: vec![
                "diagnostic order is C11's matter (multiset comparison); the generators never produce several imports matching one name nor one key registered by two different files, so a C11 defect cannot surface here".into(),
                "the reference result for an abstract state of the fixed-content stages is computed once per thread by a fresh parser and reused".into(),
            ],
            exhaustive: false,
            extra,
            min_nontrivial: 50,
        },
    )
}

// ---------------------------------------------------------------------------
// C13

fn keys_imported_by(doc: &Doc) -> Vec<String> {
    doc.imports.iter().map(|i| i.join(".")).collect()
}

pub fn run_c13(ctx: &Ctx) -> i32 {
    let n = ctx.tier.pick(4_000u64, 60_000);
    let n_pert = ctx.tier.pick(6usize, 10);
    let stats = par_cases(ctx, "projects", n, Duration::from_secs(ctx.tier.pick(90, 1500)), |i, rng, st| {
        let cfg = ProjCfg { allow_collisions: false, allow_ambiguous: false, max_members: 4, max_type_depth: 3, ..ProjCfg::default() };
        let pr = proj::project(rng, &cfg);
        if pr.files.len() < 2 {
            return;
        }
        let mut pr = pr;
        let mut obs = rng.below(pr.files.len());
        let dense = i % 3 == 0;
        if dense {
            // a "dense dependent": an extra observed file that imports EVERY other item and uses each one in every
            // way a file can depend on another (types in all positions, containers, `Type.ELEMENT` defaults, constants):
            // whatever the library reads from the other files beyond key and kind shows up as a changed result
            let keys: Vec<String> = pr.files.iter().map(|f| f.doc.key()).collect();
            let mut t = String::from("package zz.obs; ");
            for k in &keys {
                t.push_str(&format!("import {k}; "));
            }
            let as_iface = rng.chance(1, 2);
            t.push_str(if as_iface { "interface Obs { " } else { "parcelable Obs { " });
            for (n, k) in keys.iter().enumerate() {
                let simple = k.rsplit('.').next().unwrap_or("X");
                let el = rng.pick_str(gen::ELEMENT_NAMES);
                if as_iface {
                    t.push_str(&format!("{k} m{n}(in {simple} a, out {k}[] b, in List<{simple}> c); oneway void o{n}(in Map<String,{k}> m); const int C{n} = 1; "));
                } else {
                    t.push_str(&format!("{simple} f{n} = {simple}.{el}; {k} g{n} = {simple}.{el}; List<{k}> l{n}; {simple}[] a{n}; Map<String,{simple}> m{n}; const String S{n} = {simple}.{el}; "));
                }
            }
            t.push('}');
            let doc = pr.files[0].doc.clone();
            let mut d2 = doc;
            d2.package = vec!["zz".into(), "obs".into()];
            d2.imports = keys.iter().map(|k| k.split('.').map(|s| s.to_string()).collect()).collect();
            d2.item.name = "Obs".into();
            pr.files.push(proj::ProjFile { id: "obs".into(), doc: d2, text: t });
            obs = pr.files.len() - 1;
            st.inc("projects_with_a_dense_dependent_as_observed_file");
        }
        let obs_id = pr.files[obs].id.clone();
        let imported = keys_imported_by(&pr.files[obs].doc);
        let base = pr.as_pairs();
        let key = hash_str(&base.iter().map(|f| f.1.clone()).collect::<Vec<_>>().join("\u{1}"));
        let before = match libx::parse_project(&base) {
            Ok(r) => r,
            Err(p) => {
                st.case(key, true);
                st.violate("projects", i, "panic", format!("library panicked: {p}"), json!({"files": base}));
                return;
            }
        };
        let Some(b) = before.valid.get(&obs_id) else { return };
        st.case(key, !imported.is_empty());
        let mut problems: Vec<String> = Vec::new();
        for _ in 0..n_pert {
            let mut files = base.clone();
            let others: Vec<usize> = (0..pr.files.len()).filter(|k| *k != obs).collect();
            let k = *rng.pick(&others);
            let other_key = pr.files[k].doc.key();
            let is_imported = imported.contains(&other_key);
            let mut expect_same = true;
            let mut control_must_differ = false;
            let label;
            match rng.below(8) {
                0 => {
                    label = "add_unrelated_file";
                    let d = gen::doc(rng, &GenCfg { max_members: 3, max_type_depth: 2, ..GenCfg::default() });
                    let mut d = d;
                    d.package = vec!["zz".into(), "unrelated".into(), format!("p{}", rng.below(1000))];
                    files.push(("extra".into(), proj::render_text(&d, rng)));
                }
                1 if !is_imported => {
                    label = "remove_non_imported_file";
                    files.remove(k);
                }
                2 if !is_imported => {
                    label = "replace_non_imported_file_by_garbage";
                    files[k].1 = mutate::token_soup(rng, 15);
                }
                3 | 4 | 1 | 2 => {
                    label = "rewrite_other_file_keeping_package_name_kind";
                    let mut d = pr.files[k].doc.clone();
                    let name = d.item.name.clone();
                    let gcfg = GenCfg { kind: Some(d.item.kind), max_members: 4, max_type_depth: 3, ..GenCfg::default() };
                    d.item = gen::item(rng, &gcfg);
                    d.item.name = name;
                    if rng.chance(1, 2) {
                        d.imports = (0..rng.below(3)).map(|_| gen::qualified(rng, 2, 3)).collect();
                    }
                    if rng.chance(1, 2) {
                        d.declared.clear();
                    }
                    files[k].1 = proj::render_text(&d, rng);
                }
                5 => {
                    label = "re-layout_other_file";
                    let r = gen::render(&pr.files[k].doc);
                    files[k].1 = gen::layout(&r.toks, rng, gen::LayoutStyle::Wild, &r.forced).text;
                }
                6 if is_imported => {
                    label = "control:change_kind_of_imported_file";
                    expect_same = false;
                    let mut d = pr.files[k].doc.clone();
                    let new_kind = match d.item.kind {
                        ItemKind::Interface => ItemKind::Parcelable,
                        ItemKind::Parcelable => ItemKind::Enum,
                        ItemKind::Enum => ItemKind::Interface,
                    };
                    let name = d.item.name.clone();
                    d.item = gen::item(rng, &GenCfg { kind: Some(new_kind), max_members: 2, max_type_depth: 1, ..GenCfg::default() });
                    d.item.name = name;
                    files[k].1 = proj::render_text(&d, rng);
                    // the result must differ if some type of the observed file resolved to that item
                    if let Some(a) = &b.ast {
                        control_must_differ = crate::astx::all_types(a).iter().any(|t| matches!(&t.0.kind, aidl_parser::ast::TypeKind::ResolvedItem(q, _) if *q == other_key));
                    }
                }
                7 if is_imported => {
                    label = "control:remove_imported_file";
                    expect_same = false;
                    files.remove(k);
                    control_must_differ = true; // the import becomes unresolved (Warning) at least
                }
                _ => {
                    if rng.chance(1, 2) {
                        label = "add_unrelated_garbage_file";
                        files.push(("extra".into(), mutate::token_soup(rng, 15)));
                    } else {
                        // a second copy of an existing file under a new id: same key, same kind - no fact changes
                        label = "duplicate_a_file_under_a_new_id";
                        let src = rng.below(files.len());
                        let text = files[src].1.clone();
                        files.push(("extra_copy".into(), text));
                    }
                }
            }
            st.inc(&format!("perturbation.{label}"));
            let after = match libx::parse_project(&files) {
                Ok(r) => r,
                Err(p) => {
                    problems.push(format!("panic after {label}: {p}"));
                    continue;
                }
            };
            let Some(a) = after.valid.get(&obs_id) else {
                problems.push(format!("{label}: the observed file disappeared from the result"));
                continue;
            };
            let same = libx::same_multiset(a, b);
            if expect_same {
                st.inc("comparisons(result must be unchanged)");
                if !same {
                    problems.push(format!(
                        "{label} (other file key {other_key}, imported by the observed file: {is_imported}) changed the observed file's result: tree equal: {}, diagnostics before {:?} after {:?}",
                        a.ast == b.ast,
                        libx::diags_brief(&b.diagnostics),
                        libx::diags_brief(&a.diagnostics)
                    ));
                }
            } else {
                st.inc(if same { "control.result_unchanged" } else { "control.result_changed(sensitivity)" });
                if control_must_differ && same {
                    problems.push(format!("{label}: the observed file's result did not change although it refers to {other_key}"));
                }
            }
        }
        if st.want_sample() && !imported.is_empty() && base.iter().all(|f| f.1.len() < 500) {
            st.sample(json!({"observed": obs_id, "files": base}));
        }
        if let Some(p0) = problems.first() {
            st.violate("projects", i, if p0.contains("control") { "insensitive-to-imported-kind" } else { "depends-on-unrelated-file" }, p0.chars().take(700).collect(), json!({"files": base, "observed": obs_id, "problems": problems}));
        }
    });
    finish(
        ctx,
        stats,
        Meta {
            rule: "generated projects (unique keys, no ambiguous imports) x one observed file x single-file perturbations of the rest: add an unrelated file, remove / replace by garbage a non-imported file, rewrite body / imports / declarations / layout of any other file keeping package, name and kind; the observed file's result (tree by equality, diagnostics as multiset) must not change; negative controls: change the kind of / remove an imported file (must change the result when a type resolves to it); non-trivial if the observed file has imports; distinct by project text hash".into(),
            assumptions: vec!["diagnostic order is C11's matter (multiset comparison)".into(), "an added unrelated file lives in a package no generated import can name".into()],
            exhaustive: false,
            extra: Default::default(),
            min_nontrivial: 30,
        },
    )
}
