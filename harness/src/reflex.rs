//! Reference lexer: hand-written maximal munch for the token classes of aidl.lalrpop's match block.
#[derive(Clone, Copy, Debug, PartialEq, Eq, Hash, PartialOrd, Ord)]
pub enum K {
    Package, Import, Interface, Parcelable, Enum, Oneway, Const, Direction, Void, Primitive, StringT, CharSequence, List, Map,
    QuotedString, Boolean, Annotation,
    Semi, Comma, LBrace, RBrace, LParen, RParen, LBracket, RBracket, Lt, Gt, Eq, Dot, Minus,
    Reserved, Ident, Integer, Float,
}
pub const ALL_KINDS: [K; 34] = [K::Package, K::Import, K::Interface, K::Parcelable, K::Enum, K::Oneway, K::Const, K::Direction, K::Void, K::Primitive, K::StringT, K::CharSequence, K::List, K::Map, K::QuotedString, K::Boolean, K::Annotation, K::Semi, K::Comma, K::LBrace, K::RBrace, K::LParen, K::RParen, K::LBracket, K::RBracket, K::Lt, K::Gt, K::Eq, K::Dot, K::Minus, K::Reserved, K::Ident, K::Integer, K::Float];

#[derive(Clone, Debug, PartialEq, Eq)]
pub struct Tok { pub kind: K, pub start: usize, pub end: usize }

#[derive(Debug, PartialEq, Eq)]
pub struct LexResult { pub toks: Vec<Tok>, pub invalid_at: Option<usize> }

pub fn is_ws(c: char) -> bool {
    matches!(c, '\t'..='\r' | ' ' | '\u{85}' | '\u{a0}' | '\u{1680}' | '\u{2000}'..='\u{200a}' | '\u{2028}' | '\u{2029}' | '\u{202f}' | '\u{205f}' | '\u{3000}')
}
// Unicode decimal digits: ASCII plus the few non-ASCII ones the generators use (Arabic-Indic, fullwidth)
pub fn is_udigit(c: char) -> bool { c.is_ascii_digit() || ('\u{660}'..='\u{669}').contains(&c) || ('\u{ff10}'..='\u{ff19}').contains(&c) }
fn is_ident_start(c: char) -> bool { c.is_ascii_alphabetic() || c == '_' }
fn is_ident_cont(c: char) -> bool { c.is_ascii_alphanumeric() || c == '_' }

const RESERVED: [&str; 33] = ["break","case","catch","char","class","continue","default","do","double","else","enum","false","float","for","goto","if","int","long","new","private","protected","public","return","short","static","switch","this","throw","true","try","void","volatile","while"];

fn word_kind(w: &str) -> K {
    match w {
        "package" => K::Package, "import" => K::Import, "interface" => K::Interface, "parcelable" => K::Parcelable,
        "enum" => K::Enum, "oneway" => K::Oneway, "const" => K::Const, "in" | "out" | "inout" => K::Direction, "void" => K::Void,
        "byte" | "short" | "int" | "long" | "float" | "double" | "boolean" | "char" => K::Primitive,
        "String" => K::StringT, "CharSequence" => K::CharSequence, "List" => K::List, "Map" => K::Map,
        "true" | "false" => K::Boolean,
        _ => if RESERVED.contains(&w) { K::Reserved } else { K::Ident },
    }
}

/// length (bytes) of the FLOAT match `[+-]?(\d*\.)?\d+[f]?` at the start of s, if any
fn float_len(s: &str) -> Option<usize> {
    let cs: Vec<(usize, char)> = s.char_indices().collect();
    let at = |i: usize| cs.get(i).map(|x| x.1);
    let off = |i: usize| cs.get(i).map(|x| x.0).unwrap_or(s.len());
    let mut i = 0;
    if matches!(at(i), Some('+') | Some('-')) { i += 1; }
    let mut j = i; while at(j).map_or(false, is_udigit) { j += 1; }
    // option A: (\d*\.) present
    let mut best: Option<usize> = None;
    if at(j) == Some('.') {
        let mut k = j + 1; let k0 = k; while at(k).map_or(false, is_udigit) { k += 1; }
        if k > k0 { let mut e = k; if at(e) == Some('f') { e += 1; } best = Some(off(e)); }
    }
    if best.is_none() && j > i { let mut e = j; if at(e) == Some('f') { e += 1; } best = Some(off(e)); }
    best
}

pub fn lex(text: &str) -> LexResult {
    let mut toks = Vec::new();
    let mut pos = 0usize;
    let n = text.len();
    loop {
        // trivia
        loop {
            let rest = &text[pos..];
            let mut it = rest.chars();
            match it.next() {
                None => break,
                Some(c) if is_ws(c) => { pos += c.len_utf8(); }
                Some('/') => {
                    if rest.starts_with("//") {
                        let mut p = pos + 2;
                        for c in text[p..].chars() { if c == '\n' || c == '\r' { break; } p += c.len_utf8(); }
                        for c in text[p..].chars() { if c == '\n' || c == '\r' { p += 1; } else { break; } }
                        pos = p;
                    } else if rest.starts_with("/*") {
                        match text[pos + 2..].find("*/") { Some(i) => pos = pos + 2 + i + 2, None => return LexResult { toks, invalid_at: Some(pos) } }
                    } else { return LexResult { toks, invalid_at: Some(pos) }; }
                }
                Some(_) => break,
            }
        }
        if pos >= n { return LexResult { toks, invalid_at: None }; }
        let rest = &text[pos..];
        let c = rest.chars().next().unwrap();
        let single = match c { ';' => Some(K::Semi), ',' => Some(K::Comma), '{' => Some(K::LBrace), '}' => Some(K::RBrace), '(' => Some(K::LParen), ')' => Some(K::RParen), '[' => Some(K::LBracket), ']' => Some(K::RBracket), '<' => Some(K::Lt), '>' => Some(K::Gt), '=' => Some(K::Eq), _ => None };
        if let Some(k) = single { toks.push(Tok { kind: k, start: pos, end: pos + 1 }); pos += 1; continue; }
        if is_ident_start(c) {
            let len = rest.char_indices().find(|(_, ch)| !is_ident_cont(*ch)).map(|x| x.0).unwrap_or(rest.len());
            toks.push(Tok { kind: word_kind(&rest[..len]), start: pos, end: pos + len }); pos += len; continue;
        }
        if c == '@' {
            let after = &rest[1..];
            if after.chars().next().map_or(false, is_ident_start) {
                let len = after.char_indices().find(|(_, ch)| !is_ident_cont(*ch)).map(|x| x.0).unwrap_or(after.len());
                toks.push(Tok { kind: K::Annotation, start: pos, end: pos + 1 + len }); pos += 1 + len; continue;
            }
            return LexResult { toks, invalid_at: Some(pos) };
        }
        if c == '"' {
            let mut p = 1; let mut closed = false;
            for ch in rest[1..].chars() { if ch == '"' { closed = true; p += 1; break; } if ch == '\n' || ch == '\r' { break; } p += ch.len_utf8(); }
            if closed { toks.push(Tok { kind: K::QuotedString, start: pos, end: pos + p }); pos += p; continue; }
            return LexResult { toks, invalid_at: Some(pos) };
        }
        // numbers / '.', '-', '+'
        let fl = float_len(rest);
        let int_len = rest.char_indices().find(|(_, ch)| !ch.is_ascii_digit()).map(|x| x.0).unwrap_or(rest.len());
        let lit = match c { '.' => Some(K::Dot), '-' => Some(K::Minus), _ => None };
        let mut best: Option<(K, usize)> = None;
        // priority on ties: literal > INTEGER > FLOAT ; longest first
        if let Some(l) = fl { best = Some((K::Float, l)); }
        if int_len > 0 && best.map_or(true, |b| int_len >= b.1) { best = Some((K::Integer, int_len)); }
        if let Some(k) = lit { if best.map_or(true, |b| 1 >= b.1) { best = Some((k, 1)); } }
        match best { Some((k, l)) => { toks.push(Tok { kind: k, start: pos, end: pos + l }); pos += l; }
            None => return LexResult { toks, invalid_at: Some(pos) } }
    }
}

pub const RESERVED_WORDS: [&str; 33] = RESERVED;

/// The 25 words the first `match` block turns into keyword-like tokens.
pub const KEYWORDS: [&str; 25] = [
    "package", "import", "interface", "parcelable", "enum", "oneway", "const", "in", "out", "inout", "void",
    "byte", "short", "int", "long", "float", "double", "boolean", "char", "String", "CharSequence", "List", "Map",
    "true", "false",
];

/// true if `w` can never be an IDENT token
pub fn is_non_ident_word(w: &str) -> bool {
    word_kind_pub(w) != K::Ident
}

pub fn word_kind_pub(w: &str) -> K {
    word_kind(w)
}

impl K {
    /// the terminal's name as lalrpop prints it in expectation lists
    pub fn terminal_name(self) -> &'static str {
        match self {
            K::Package => "PACKAGE",
            K::Import => "IMPORT",
            K::Interface => "INTERFACE",
            K::Parcelable => "PARCELABLE",
            K::Enum => "ENUM",
            K::Oneway => "ONEWAY",
            K::Const => "CONST",
            K::Direction => "DIRECTION",
            K::Void => "VOID",
            K::Primitive => "PRIMITIVE",
            K::StringT => "STRING",
            K::CharSequence => "CHAR_SEQUENCE",
            K::List => "LIST",
            K::Map => "MAP",
            K::QuotedString => "QUOTED_STRING",
            K::Boolean => "BOOLEAN",
            K::Annotation => "ANNOTATION",
            K::Semi => "\";\"",
            K::Comma => "\",\"",
            K::LBrace => "\"{\"",
            K::RBrace => "\"}\"",
            K::LParen => "\"(\"",
            K::RParen => "\")\"",
            K::LBracket => "\"[\"",
            K::RBracket => "\"]\"",
            K::Lt => "\"<\"",
            K::Gt => "\">\"",
            K::Eq => "\"=\"",
            K::Dot => "\".\"",
            K::Minus => "\"-\"",
            K::Reserved => "RESERVED_KEYWORD",
            K::Ident => "IDENT",
            K::Integer => "INTEGER",
            K::Float => "FLOAT",
        }
    }
}
