#!/bin/bash
# like verify_seeded.sh but for round 2 (one change per worktree, in SEEDED/)
W="$1"; S="$W/SEEDED"
cd "$W" || exit 2
git checkout -q -- src tests Cargo.toml 2>/dev/null; rm -f tests/demo.rs
git apply --check "$S/patch.diff" || { echo "RESULT $W patch-does-not-apply"; exit 1; }
cp "$S/demo.rs" tests/demo.rs
clean=$(cargo test --offline --test demo 2>&1 | grep -E "^test result" | head -1)
rm -f tests/demo.rs
git apply "$S/patch.diff"
base=$(cargo test --offline --no-fail-fast 2>&1 | grep -E "^test result" | awk '{p+=$4; f+=$6} END {print p" passed "f" failed"}')
hooks=$(cargo build --offline --features verif-hooks 2>&1 | grep -cE "^error")
cp "$S/demo.rs" tests/demo.rs
demo=$(cargo test --offline --test demo 2>&1 | grep -E "^test result" | head -1)
rm -f tests/demo.rs
git checkout -q -- src tests Cargo.toml 2>/dev/null
echo "RESULT $W | existing(patched): $base | hooks-build-errors: $hooks | demo(patched): $demo | demo(clean): $clean"
