#!/bin/bash
# Run every quick check against each behaviour-preserving refactor (false-alarm probe). Exclusive use of /repo.
export VERIF_OUT_DIR=/tmp/refactor-out
mkdir -p $VERIF_OUT_DIR
cd /repo
for d in ${@:-/verif/seeded/refactors/R*}; do
  n=$(basename $d)
  if [ -n "$(git status --porcelain --untracked-files=no)" ]; then echo "/repo dirty"; exit 2; fi
  git apply $d/patch.diff || { echo "$n patch-does-not-apply"; continue; }
  line="$n:"
  for ID in C01 C02 C03 C04 C05 C06 C07 C08 C09 C10 C11 C12 C13 C14 C15 C16 C17 C18 C19 C20; do
    out=$(cd /verif && ./check $ID quick 2>&1); rc=$?
    line="$line $ID=$rc"
    if [ $rc -ne 0 ]; then echo "$out" | grep -E "violation \[|BUILD|HARNESS|INCONCLUSIVE|^error" | head -3 | cut -c1-400 | sed "s/^/    [$n $ID] /"; fi
  done
  echo "$line"
  git checkout -- .
done
echo REFACTORS-DONE
