#!/bin/bash
# tools/run_all_seeded.sh [ids...] : run each seeded change against its own property's quick check; print one line each
cd /verif
for d in ${@:-seeded/C*}; do
  d=$(basename $d); id=${d%%-*}
  out=$(tools/try_seeded.sh /verif/seeded/$d/patch.diff $id 2>&1)
  rc=$(echo "$out" | grep -oE "rc=[0-9]+" | head -1)
  first=$(echo "$out" | grep -E "^  violation" | head -1 | cut -c1-220)
  echo "$d $rc | $first"
done
