#!/usr/bin/env python3
"""Regenerates /verif/MANIFEST.json from the table below (kept in one place so that
MANIFEST.json is always valid and in step with what the harness implements)."""
import json, sys

HOOK_COMMITS = ["d63b64d"]

# id -> (technique, level text, level note, design ref, exhaustive-part note)
CHECKS = {
 "C02": ("runtime monitor: generated documents x layouts, model oracle (position-free projection) + metamorphic layout oracle",
         "Held on every (document, layout) pair generated in the run: ~48k texts quick / ~2.4M thorough covering every grammar alternative of the reference CFG (coverage table in the evidence). Right level: the property quantifies over an infinite input set; a monitor over a typed generator reaches every production and layout class, which the 70 fixed snippets cannot.",
         "Trusted: the harness's document model, renderer and projection; reference lexer/Earley recognizer used to self-check the generator; hook H1 (read-only accessor).",
         "DESIGN.md §3 C02"),
}

NOT_YET = {}
ALL = ["C%02d" % i for i in range(1, 21)]

def main():
    checks = []
    for pid in ALL:
        if pid not in CHECKS:
            continue
        tech, text, note, ref = CHECKS[pid]
        checks.append({
            "property_id": pid,
            "quick_cmd": f"./check {pid} quick",
            "thorough_cmd": f"./check {pid} thorough",
            "evidence_file": f"/verif/evidence/{pid}.json",
            "replay_cmd_template": f"./check {pid} quick --replay {{path}}",
            "engine": "harness",
            "level_claimed": {"category": "exploration", "text": text, "design_ref": ref},
            "level_note": note,
            "technique": tech,
        })
    na = [{"property_id": pid, "reason": NOT_YET.get(pid, "monitor not built yet in this revision (work in progress; see DESIGN.md §3 for the planned oracle)")}
          for pid in ALL if pid not in CHECKS]
    m = {
        "version": 1,
        "setup_cmd": "cd /verif/harness && CARGO_NET_OFFLINE=true cargo build --release --offline",
        "hooks": {
            "guard": "verif-hooks (cargo feature of aidl-parser, off by default)",
            "enable": "the harness depends on aidl-parser by path (/repo) with features = [\"verif-hooks\"]; ./check rebuilds it from /repo's working tree on every invocation",
            "baseline_off_cmd": "cd /repo && cargo test --workspace --no-fail-fast --offline",
            "source_commits": HOOK_COMMITS,
            "add_only": True,
        },
        "engines": [{
            "name": "harness",
            "path": "/verif/harness",
            "serves_properties": [c["property_id"] for c in checks],
            "kind_free_text": "Rust runtime-monitoring harness: deterministic generators (documents, projects, histories, mutations), reference models as oracles (lexer, Earley recognizer, validator, traversal, doc extractor, id->content map), parallel case driver with three-valued verdicts, evidence writer; sanitizer stages (ASan / valgrind memcheck / Miri) for C01 thorough",
        }],
        "checks": checks,
        "not_applicable": na,
        "notes": "Technique family: runtime monitoring and sanitizers. Exit codes of ./check: 0 held on what was observed, 1 violation (VIOLATION line), 2 build/harness error or inconclusive run. Known findings: /verif/known_findings.json (read-only at run time).",
    }
    json.dump(m, open("/verif/MANIFEST.json", "w"), indent=1)
    print(f"wrote MANIFEST.json: {len(checks)} checks, {len(na)} not_applicable")

if __name__ == "__main__":
    main()
