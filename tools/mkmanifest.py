#!/usr/bin/env python3
"""Regenerates /verif/MANIFEST.json from the table below (kept in one place so that
MANIFEST.json is always valid and in step with what the harness implements)."""
import json, sys

HOOK_COMMITS = ["d63b64d"]

# id -> (technique, level text, level note, design ref, exhaustive-part note)
CHECKS = {
 "C02": ("runtime monitor: generated documents x layouts, model oracle (position-free projection) + metamorphic layout oracle",
         "Held on every (document, layout) pair generated in the run: ~48k texts quick / ~2.4M thorough covering every grammar alternative of the reference CFG (coverage table in the evidence). Right level: the property quantifies over an infinite input set; a monitor over a typed generator reaches every production and layout class, which the 70 fixed snippets cannot.",
         "Trusted: the harness's document model, renderer and projection; reference lexer/Earley recognizer used to self-check the generator; hook H1 (read-only accessor).",
         "DESIGN.md §3 C02"),
}

CHECKS.update({
 "C01": ("runtime monitor in worker sub-processes (panic capture, abort attribution, bytes^2-scaled two-stage hang watchdog, result-map oracle); thorough adds ASan, valgrind memcheck and a Miri micro-slice on the same workload",
         "Held on every case executed: ~60k file sets quick / ~1M thorough natively (character soups, token soups, mutated documents, systematic injection at every character position, size stress to 64 KiB), plus ~30k under ASan, ~5k under memcheck and a handful under Miri in thorough. Right level: totality over all UTF-8 strings cannot be enumerated; hostile generators + process isolation observe exactly the refuting events (panic, abort, hang, wrong key set).",
         "Trusted: OS process isolation; the watchdog rule (slow is not hung: two expiries, second at 5x a bytes^2-scaled budget); sanitizer tool failure = inconclusive.",
         "DESIGN.md §3 C01"),
 "C03": ("runtime monitor: differential oracle against a reference lexer + Earley recognizer over bounded-exhaustive slot substitution, random token mutation and lexical cases",
         "Held on every text judged: all token-kind sequences of length <= 2 in 22 syntactic slots (exhaustive, ~26k) + 25k mutated documents + ~10k lexical cases quick; length 3 on 8 slots (~315k) + 800k random in thorough. Agreement with the reference recognizer must be total; evidence holds the agreement matrix.",
         "Trusted: R-lex and the CFG transcription (earley.rs); alphabet restricted to characters where R-lex is exact; hooks H1.",
         "DESIGN.md §3 C03"),
 "C04": ("runtime monitor: exact range expectations from the generator's token table + independent line/column oracle + generic nesting/well-formedness walker + R-lex/R-earley oracle for syntax-diagnostic positions",
         "Held on every range observed (~5M ranges quick): every name/full range of generated documents in all layouts compared with the token table; every range in trees, diagnostics and related infos of malformed inputs checked for well-formedness, nesting and line/column agreement; first syntax error compared with the first token the reference grammar cannot accept.",
         "Trusted: token table of the renderer; unicode-segmentation for grapheme clusters on complex lines; leniencies stated in the evidence assumptions.",
         "DESIGN.md §3 C04"),
 "C14": ("runtime monitor: generated items with one reference-rejected garbage member spliced at every position; sibling-subsequence, error-presence and error-locality oracle",
         "Held on ~40k (quick) / ~600k (thorough) garbage members across interface / parcelable / enum and all positions, except the recorded known finding K2 (enum + unclosed annotation list) which is matched by its exact signature.",
         "Trusted: R-earley to decide that the garbage is not a member and whether `G ,` is a viable prefix (K2 signature); projection of C02.",
         "DESIGN.md §3 C14"),
 "C20": ("runtime monitor: hook H2 records the parser's expectation list; message text scanned for terminal names and compared as sets at generated error points",
         "Held on ~80k (quick) / ~1M (thorough) (record, message) pairs with expectation sets of size 0-14, except the recorded known finding K1 (second-to-last entry dropped when >= 3) matched by its exact signature; anything else is a violation.",
         "Trusted: hook H2 (records the vector before formatting); the scanner for the grammar's 34 terminal names.",
         "DESIGN.md §3 C20"),
})

NOT_YET = {}
ALL = ["C%02d" % i for i in range(1, 21)]

def main():
    checks = []
    for pid in ALL:
        if pid not in CHECKS:
            continue
        tech, text, note, ref = CHECKS[pid]
        checks.append({
            "property_id": pid,
            "quick_cmd": f"./check {pid} quick",
            "thorough_cmd": f"./check {pid} thorough",
            "evidence_file": f"/verif/evidence/{pid}.json",
            "replay_cmd_template": f"./check {pid} quick --replay {{path}}",
            "engine": "harness",
            "level_claimed": {"category": "exploration", "text": text, "design_ref": ref},
            "level_note": note,
            "technique": tech,
        })
    na = [{"property_id": pid, "reason": NOT_YET.get(pid, "monitor not built yet in this revision (work in progress; see DESIGN.md §3 for the planned oracle)")}
          for pid in ALL if pid not in CHECKS]
    m = {
        "version": 1,
        "setup_cmd": "cd /verif/harness && CARGO_NET_OFFLINE=true cargo build --release --offline",
        "hooks": {
            "guard": "verif-hooks (cargo feature of aidl-parser, off by default)",
            "enable": "the harness depends on aidl-parser by path (/repo) with features = [\"verif-hooks\"]; ./check rebuilds it from /repo's working tree on every invocation",
            "baseline_off_cmd": "cd /repo && cargo test --workspace --no-fail-fast --offline",
            "source_commits": HOOK_COMMITS,
            "add_only": True,
        },
        "engines": [{
            "name": "harness",
            "path": "/verif/harness",
            "serves_properties": [c["property_id"] for c in checks],
            "kind_free_text": "Rust runtime-monitoring harness: deterministic generators (documents, projects, histories, mutations), reference models as oracles (lexer, Earley recognizer, validator, traversal, doc extractor, id->content map), parallel case driver with three-valued verdicts, evidence writer; sanitizer stages (ASan / valgrind memcheck / Miri) for C01 thorough",
        }],
        "checks": checks,
        "not_applicable": na,
        "notes": "Technique family: runtime monitoring and sanitizers. Exit codes of ./check: 0 held on what was observed, 1 violation (VIOLATION line), 2 build/harness error or inconclusive run. Known findings: /verif/known_findings.json (read-only at run time).",
    }
    json.dump(m, open("/verif/MANIFEST.json", "w"), indent=1)
    print(f"wrote MANIFEST.json: {len(checks)} checks, {len(na)} not_applicable")

if __name__ == "__main__":
    main()
