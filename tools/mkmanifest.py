#!/usr/bin/env python3
"""Regenerates /verif/MANIFEST.json from the table below (kept in one place so that
MANIFEST.json is always valid and in step with what the harness implements)."""
import json, sys

HOOK_COMMITS = ["d63b64d"]

# id -> (technique, level text, level note, design ref, exhaustive-part note)
CHECKS = {
 "C02": ("runtime monitor: generated documents x layouts, model oracle (position-free projection) + metamorphic layout oracle",
         "Held on every (document, layout) pair generated in the run: ~48k texts quick / ~2.4M thorough covering every grammar alternative of the reference CFG (coverage table in the evidence). Right level: the property quantifies over an infinite input set; a monitor over a typed generator reaches every production and layout class, which the 70 fixed snippets cannot.",
         "Trusted: the harness's document model, renderer and projection; reference lexer/Earley recognizer used to self-check the generator; hook H1 (read-only accessor).",
         "DESIGN.md §3 C02"),
}

CHECKS.update({
 "C01": ("runtime monitor in worker sub-processes (panic capture, abort attribution, bytes^2-scaled two-stage hang watchdog, result-map oracle); thorough adds ASan, valgrind memcheck and a Miri micro-slice on the same workload",
         "Held on every case executed: ~60k file sets quick / ~1M thorough natively (character soups, token soups, mutated documents, systematic injection at every character position, size stress to 64 KiB), plus ~30k under ASan, ~5k under memcheck and a handful under Miri in thorough. Right level: totality over all UTF-8 strings cannot be enumerated; hostile generators + process isolation observe exactly the refuting events (panic, abort, hang, wrong key set).",
         "Trusted: OS process isolation; the watchdog rule (slow is not hung: two expiries, second at 5x a bytes^2-scaled budget); sanitizer tool failure = inconclusive.",
         "DESIGN.md §3 C01"),
 "C03": ("runtime monitor: differential oracle against a reference lexer + Earley recognizer over bounded-exhaustive slot substitution, random token mutation and lexical cases",
         "Held on every text judged: all token-kind sequences of length <= 2 in 22 syntactic slots (exhaustive, ~26k) + 25k mutated documents + ~10k lexical cases quick; length 3 on 8 slots (~315k) + 800k random in thorough. Agreement with the reference recognizer must be total; evidence holds the agreement matrix.",
         "Trusted: R-lex and the CFG transcription (earley.rs); alphabet restricted to characters where R-lex is exact; hooks H1.",
         "DESIGN.md §3 C03"),
 "C04": ("runtime monitor: exact range expectations from the generator's token table + independent line/column oracle + generic nesting/well-formedness walker + R-lex/R-earley oracle for syntax-diagnostic positions",
         "Held on every range observed (~5M ranges quick): every name/full range of generated documents in all layouts compared with the token table; every range in trees, diagnostics and related infos of malformed inputs checked for well-formedness, nesting and line/column agreement; first syntax error compared with the first token the reference grammar cannot accept.",
         "Trusted: token table of the renderer; unicode-segmentation for grapheme clusters on complex lines; leniencies stated in the evidence assumptions.",
         "DESIGN.md §3 C04"),
 "C14": ("runtime monitor: generated items with one reference-rejected garbage member spliced at every position; sibling-subsequence, error-presence and error-locality oracle",
         "Held on ~40k (quick) / ~600k (thorough) garbage members across interface / parcelable / enum and all positions, except the recorded known finding K2 (enum + unclosed annotation list) which is matched by its exact signature.",
         "Trusted: R-earley to decide that the garbage is not a member and whether `G ,` is a viable prefix (K2 signature); projection of C02.",
         "DESIGN.md §3 C14"),
 "C20": ("runtime monitor: hook H2 records the parser's expectation list; message text scanned for terminal names and compared as sets at generated error points",
         "Held on ~80k (quick) / ~1M (thorough) (record, message) pairs with expectation sets of size 0-14, except the recorded known finding K1 (second-to-last entry dropped when >= 3) matched by its exact signature; anything else is a violation.",
         "Trusted: hook H2 (records the vector before formatting); the scanner for the grammar's 34 terminal names.",
         "DESIGN.md §3 C20"),
})

CHECKS.update({
 "C05": ("runtime monitor: reference resolver (R-val) over generated multi-file projects with adversarially similar names; kind of every type node + exactly-one 'unknown type' Error",
         "Held on every type reference observed (~65k references in 15k projects quick; 250k projects thorough) across all resolution paths (exact / simple-name / partially qualified import, unknown import, forward declaration, built-in simple / qualified / imported, unresolved) x depth 0-4 x placement; per-path counts in the evidence.",
         "Trusted: R-val's transcription of the scoping rules in the statement; lenient where the statement is silent (several matching imports / several files under one key: any candidate). Hook H1 for the parse-stage trees. Half of the projects reach their final state through a hostile pre-history (decoy files, replacement, removal, interleaved validate calls), so stale caches inside the parser are observable here too.",
         "DESIGN.md §3 C05"),
 "C06": ("runtime monitor: reference pass for import / forward-declaration diagnostics (class, severity, range, related range) compared as multisets per file",
         "Held on ~180k import statements and ~80k forward declarations per quick run in every class (duplicate, unresolved, resolvable-unused, used, used only deep, used via partial qualification, built-in used/unused; declaration conflict / repeated / unused / used).",
         "Trusted: R-val; diagnostic classes recognised by the statement's own key words (unclassified diagnostics are counted and ignored).",
         "DESIGN.md §3 C06"),
 "C07": ("runtime monitor: exhaustive 816-cell product realised as real multi-file projects + arguments in random projects, compared with the category table of the statement",
         "Exhaustive over the finite product 17 categories x 4 directions x method oneway x interface oneway x 3 positions (categories arise through the real resolver), plus ~30k arguments in random projects per quick run.",
         "Trusted: R-val's category table (void held to the primitives' rule); reference resolver for categories.",
         "DESIGN.md §3 C07"),
 "C08": ("runtime monitor: exhaustive container shapes to depth 2 (quick) / 3 (thorough) over 17 leaf categories in 4 syntactic positions + containers in random projects, compared with the element tables",
         "Every array/list/map node at any depth judged: ~5.5k shapes x 4 positions exhaustive at depth <= 2 quick (depth 3 sampled), depth 3 exhaustive in thorough, plus random projects; 650+ distinct (container, child category, depth, position) cells observed.",
         "Trusted: R-val's element tables; unresolved map key accepted with 0 or 1 Error (statement ambiguous; counted as lenient).",
         "DESIGN.md §3 C08"),
 "C09": ("runtime monitor: exhaustive method sequences (<= 4 quick, <= 5 thorough) over 3 names x 4 code options + random long sequences, compared with an independent single pass",
         "Exhaustive over all 22,620 sequences of <= 4 methods (quick) / 271,452 of <= 5 (thorough) with constants interleaved, plus 6k-120k random sequences of 6-40 methods with large and zero-padded codes; related-info ranges compared.",
         "Trusted: the reference single pass in rval.rs.",
         "DESIGN.md §3 C09"),
 "C10": ("runtime monitor: exhaustive interface-oneway x per-method (oneway x 17 return categories) product for <= 2 (quick) / <= 3 (thorough) methods + random projects; oneway flags, redundancy Warnings, return-type Errors",
         "Exhaustive over 2,380 interfaces quick (+3,000 sampled triples) / 80,988 thorough, realised as 4-file projects, plus interfaces in random projects; explicit flags read from the parse-stage tree (H1).",
         "Trusted: R-val; reference resolver for return categories.",
         "DESIGN.md §3 C10"),
 "C11": ("runtime monitor: repeated validation under varied insertion order, parser instance, thread (fresh hash keys) and process; element-wise equality with the first output + ascending-offset check; control measurement of hash-order variety",
         "Held on 300 order-biased projects x ~70 runs quick (5,000 x ~210 thorough): same parser again, fresh parser, rotated/reversed/swapped insertion, 8 threads, 4 processes (subset). Evidence reports how many distinct hash iteration orders the control probe saw.",
         "Trusted: std RandomState gives each HashMap/HashSet instance and each thread a fresh seed (measured by the control probe).",
         "DESIGN.md §3 C11"),
 "C12": ("runtime monitor: operation histories checked after every step against an executable model (abstract id -> content map replayed into a fresh parser); exhaustive short histories from all 125 abstract states + random long histories with real file I/O",
         "Exhaustive: every history of length <= 2 (quick) / <= 3 (thorough) over 19 operations from each of the 125 abstract states and every history of length <= 3 / <= 4 from the empty parser (~55k quick / ~1M thorough), plus random histories of 5-40 steps over generated projects; add_file exercised on real files (ok / missing / directory / invalid UTF-8).",
         "Trusted: the abstract map; reference results per abstract state computed by a fresh parser; diagnostics compared as multisets (order is C11's).",
         "DESIGN.md §3 C12"),
 "C13": ("runtime monitor: metamorphic perturbation oracle (result of the observed file before == after), with negative controls that must change the result",
         "Held on ~19k perturbations of 4k projects quick (600k of 60k thorough): add unrelated file, remove / garbage a non-imported file, rewrite body/imports/layout of any other file keeping package, name, kind; sensitivity shown by controls (kind change / removal of an imported file).",
         "Trusted: generator guarantees (unique keys, no ambiguous imports, unrelated package for added files).",
         "DESIGN.md §3 C13"),
 "C15": ("runtime monitor: reference pre-order traversal (R-walk) compared by node address with walk_symbols / filter_symbols / find_symbol / walk_types / walk_methods / walk_args under all filter levels and predicate families",
         "Held on 20k trees quick (300k thorough) x 3 filter levels x predicates 'k-th visited' for every k, 'kind K' for all 11 variants, 'name N' for every name and one absent (~3M filter/find calls quick).",
         "Trusted: R-walk order (array element before the array, otherwise node before parameters).",
         "DESIGN.md §3 C15"),
 "C16": ("runtime monitor: every (line, column) position of generated documents in all layouts probed at 3 filter levels against the first R-walk symbol whose name range contains it",
         "Held on ~15M probes quick (8k documents: multi-line, CRLF, multi-byte text before names, qualified names split over lines; plus positions outside the document).",
         "Trusted: R-walk; line/column agreement of ranges with the text is C04's matter.",
         "DESIGN.md §3 C16"),
 "C17": ("runtime monitor: symbol names of generated multi-file projects compared with the generator's model and with the registration key; type symbols compared with the item symbol they resolve to",
         "Held on 5k projects quick (120k thorough), each with per-item probe files: every item kind x package depth 1-4, members, named/unnamed arguments, imports, package, and every type symbol resolved to an item of the project.",
         "Trusted: the project model (names as written).",
         "DESIGN.md §3 C17"),
 "C18": ("runtime monitor: R-doc (expected documentation computed from a doc model of paragraphs/lines/words/tags) over generated documents with controlled comment situations in front of every documentable construct",
         "Held on ~100k documentable constructs per quick run (15k documents) in every situation class x construct kind (table in the evidence), 4 decoration styles, LF/CRLF, ASCII / accented / CJK / emoji words.",
         "Trusted: the doc model -> expected text rule of the statement; domain restrictions as stated by the property.",
         "DESIGN.md §3 C18"),
 "C19": ("runtime monitor: RON 0.7.1 and serde_json round trip of parse-stage and validated trees from generated projects and wild-layout documents, compared with PartialEq; per-field present/absent coverage",
         "Held on ~40k trees quick (600k thorough) with every optional field present and absent and all type kinds (coverage table in the evidence).",
         "Trusted: ron 0.7.1, serde_json.",
         "DESIGN.md §3 C19"),
})

NOT_YET = {}
ALL = ["C%02d" % i for i in range(1, 21)]

def main():
    checks = []
    for pid in ALL:
        if pid not in CHECKS:
            continue
        tech, text, note, ref = CHECKS[pid]
        checks.append({
            "property_id": pid,
            "quick_cmd": f"./check {pid} quick",
            "thorough_cmd": f"./check {pid} thorough",
            "evidence_file": f"/verif/evidence/{pid}.json",
            "replay_cmd_template": f"./check {pid} quick --replay {{path}}",
            "engine": "harness",
            "level_claimed": {"category": "exploration", "text": text, "design_ref": ref},
            "level_note": note,
            "technique": tech,
        })
    na = [{"property_id": pid, "reason": NOT_YET.get(pid, "monitor not built yet in this revision (work in progress; see DESIGN.md §3 for the planned oracle)")}
          for pid in ALL if pid not in CHECKS]
    m = {
        "version": 1,
        "setup_cmd": "cd /verif/harness && CARGO_NET_OFFLINE=true cargo build --release --offline",
        "hooks": {
            "guard": "verif-hooks (cargo feature of aidl-parser, off by default)",
            "enable": "the harness depends on aidl-parser by path (/repo) with features = [\"verif-hooks\"]; ./check rebuilds it from /repo's working tree on every invocation",
            "baseline_off_cmd": "cd /repo && cargo test --workspace --no-fail-fast --offline",
            "source_commits": HOOK_COMMITS,
            "add_only": True,
        },
        "engines": [{
            "name": "harness",
            "path": "/verif/harness",
            "serves_properties": [c["property_id"] for c in checks],
            "kind_free_text": "Rust runtime-monitoring harness: deterministic generators (documents, projects, histories, mutations), reference models as oracles (lexer, Earley recognizer, validator, traversal, doc extractor, id->content map), parallel case driver with three-valued verdicts, evidence writer; sanitizer stages (ASan / valgrind memcheck / Miri) for C01 thorough",
        }],
        "checks": checks,
        "not_applicable": na,
        "notes": "Technique family: runtime monitoring and sanitizers. All project-based checks (C05-C10, C13, C17, C19) drive the parser through hostile pre-histories for half of their projects; generators deliberately include keyword-like and API-like identifiers in any case, repeated names, counts/lengths/depths around 16/32/64/128/256, boundary numbers, BOM and Unicode whitespace, recovered syntax errors inside project files, plus a dictionary of all literals harvested from /repo/src at start-up (DESIGN.md 13-14). Exit codes of ./check: 0 held on what was observed, 1 violation (VIOLATION line), 2 build/harness error or inconclusive run. Known findings: /verif/known_findings.json (read-only at run time).",
    }
    json.dump(m, open("/verif/MANIFEST.json", "w"), indent=1)
    print(f"wrote MANIFEST.json: {len(checks)} checks, {len(na)} not_applicable")

if __name__ == "__main__":
    main()
