#!/bin/bash
# round 2: each change against (a) the harness as committed before the round-2 strengthening (/tmp/verif_head), (b) the current harness
cd /verif
for d in ${@:-seeded/C*-R2}; do
  d=$(basename $d); id=${d%%-*}
  cd /repo; git apply /verif/seeded/$d/patch.diff || { echo "$d patch-does-not-apply"; continue; }
  (cd /tmp/verif_head/harness && cargo build --release --offline >/dev/null 2>&1)
  old=$(VERIF_OUT_DIR=/tmp/r2old /tmp/verif_head_target/release/harness $id --tier quick --seed 1 2>&1); orc=$?
  new=$(cd /verif && VERIF_OUT_DIR=/tmp/r2new ./check $id quick 2>&1); nrc=$?
  git -C /repo checkout -- .
  echo "$d old_rc=$orc new_rc=$nrc | $(echo "$new" | grep -E '^  violation' | head -1 | cut -c1-230)"
done
