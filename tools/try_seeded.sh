#!/bin/bash
# tools/try_seeded.sh <patch.diff> <ID> [more IDs...]  — apply a seeded change to /repo, run the quick checks, undo it.
P="$1"; shift
cd /repo || exit 2
if [ -n "$(git status --porcelain --untracked-files=no)" ]; then echo "/repo is dirty"; exit 2; fi
git apply "$P" || { echo "patch does not apply"; exit 2; }
for ID in "$@"; do
  out=$(cd /verif && VERIF_SEED=${VERIF_SEED:-1} ./check "$ID" quick 2>&1); rc=$?
  echo "== $ID rc=$rc $(echo "$out" | grep -E "^$ID " | head -1)"
  echo "$out" | grep -E "^  violation" | head -3 | cut -c1-300
done
git -C /repo checkout -- . 
