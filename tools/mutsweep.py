#!/usr/bin/env python3
"""Own mutation sweep (validation of the monitors, not part of any registered check).

Works entirely in a scratch area (/tmp/mutsweep): a copy of /repo's sources, a copy of the harness whose
path dependency points at that copy, its own target dir and VERIF_OUT_DIR, so neither /repo nor /verif's
evidence is touched. For each mutant: apply, run the repository's own tests (to know whether the suite
notices), build the harness with hooks, run the listed quick checks, record exit codes.

usage: tools/mutsweep.py [--only substring] [--no-tests]
"""
import json, os, re, shutil, subprocess, sys, time

S = "/tmp/mutsweep"
OUT = "/verif/seeded/own"
ENV = dict(os.environ, CARGO_NET_OFFLINE="true", VERIF_OUT_DIR=f"{S}/out", VERIF_SEED="1", VERIF_REPO_SRC=f"{S}/repo/src")


def sh(cmd, cwd=None, timeout=1800):
    p = subprocess.run(cmd, shell=True, cwd=cwd, env=ENV, stdout=subprocess.PIPE, stderr=subprocess.STDOUT, text=True, timeout=timeout)
    return p.returncode, p.stdout


def setup():
    os.makedirs(S, exist_ok=True)
    sh(f"rsync -a --delete --exclude target --exclude .git /repo/ {S}/repo/")
    sh(f"rsync -a --delete --exclude target /verif/harness/ {S}/harness/")
    t = open(f"{S}/harness/Cargo.toml").read().replace('path = "/repo"', f'path = "{S}/repo"')
    open(f"{S}/harness/Cargo.toml", "w").write(t)
    open(f"{S}/harness/.cargo/config.toml", "w").write(f'[net]\noffline = true\n[build]\ntarget-dir = "{S}/target"\n')
    os.makedirs(f"{S}/out", exist_ok=True)
    shutil.rmtree(f"{S}/pristine", ignore_errors=True)
    shutil.copytree(f"{S}/repo/src", f"{S}/pristine")


def restore():
    sh(f"rsync -a --delete {S}/pristine/ {S}/repo/src/")


def nth_replace(text, old, new, n):
    idx = -1
    for _ in range(n + 1):
        idx = text.find(old, idx + 1)
        if idx < 0:
            return None
    return text[:idx] + new + text[idx + len(old):]


def mutants():
    ms = []
    v = open("/repo/src/validation.rs").read()
    body = v[: v.index("#[cfg(test)]")]
    # (1) flips of the element tables
    for fn, checks in (("fn check_array_element", ["C08"]), ("fn check_list_element", ["C08"]), ("fn check_map_value", ["C08"])):
        start = body.index(fn)
        end = body.index("\nfn ", start + 10) if "\nfn " in body[start + 10:] else len(body)
        seg = body[start:end]
        for m in re.finditer(r"^(\s+ast::TypeKind::[^\n]*=> )(true|false)(,[^\n]*)$", seg, re.M):
            line = m.group(0)
            flipped = m.group(1) + ("false" if m.group(2) == "true" else "true") + m.group(3)
            occ = body[: start + m.start()].count(line)
            kind = re.search(r"TypeKind::([A-Za-z_:()., ]+?) =>", line).group(1).strip()
            ms.append(dict(name=f"table:{fn.split()[1]}:{kind}", file="validation.rs", old=line, new=flipped, occ=occ, checks=checks))
    # (2) direction requirement arms
    start = body.index("fn get_requirement_for_arg_direction")
    seg = body[start: body.index("\n}\n", start)]
    swaps = {"CanOnlyBeInOrUnspecified(": "DirectionRequired(", "DirectionRequired(": "CanOnlyBeInOrUnspecified(", "CanOnlyBeInOrInOut(": "CanOnlyBeInOrUnspecified(", "CannotBeAnArg(": "CanOnlyBeInOrUnspecified("}
    for m in re.finditer(r"RequirementForArgDirection::(CanOnlyBeInOrUnspecified\(|DirectionRequired\(|CanOnlyBeInOrInOut\(|CannotBeAnArg\()", seg):
        old = m.group(0)
        new = "RequirementForArgDirection::" + swaps[m.group(1)]
        occ = body[: start + m.start()].count(old)
        ctx = seg[max(0, m.start() - 120): m.start()].strip().split("\n")[-2:]
        ms.append(dict(name=f"direction_arm:{m.group(1)[:-1]}@{occ}:{' '.join(c.strip() for c in ctx)[-70:]}", file="validation.rs", old=old, new=new, occ=occ, checks=["C07"]))
    ms.append(dict(name="direction:unresolved gets a requirement", file="validation.rs", old="ast::TypeKind::Unresolved => RequirementForArgDirection::NoRequirement,", new='ast::TypeKind::Unresolved => RequirementForArgDirection::DirectionRequired("x"),', occ=0, checks=["C07"]))
    # (3) hand-written sanity mutants
    H = [
        ("C02:map swaps key and value", "ast.rs", "generic_types: Vec::from([key_param, value_param]),", "generic_types: Vec::from([value_param, key_param]),", ["C02"]),
        ("C02:members reversed", "aidl.lalrpop", "let elements: Vec<ast::InterfaceElement> = v.into_iter().flatten().collect();", "let elements: Vec<ast::InterfaceElement> = v.into_iter().rev().flatten().collect();", ["C02"]),
        ("C02:empty braces value becomes {...}", "aidl.lalrpop", '"{" "}" => "{}".to_string(),', '"{" "}" => "{...}".to_string(),', ["C02"]),
        ("C02:dotted value joined without dot", "aidl.lalrpop", '<a:IDENT> "." <b:IDENT> => format!("{a}.{b}"),', '<a:IDENT> "." <b:IDENT> => format!("{a}{b}"),', ["C02"]),
        ("C02:import path joined with empty string", "aidl.lalrpop", 'path: v.join("."),\n            name: n.to_owned(),\n            symbol_range: ast::Range::new(lookup, sp1, sp2),\n            full_range: ast::Range::new(lookup, fp1, fp2),\n        }\n    }\n}\n\n// e.g. x OR', 'path: v.join(""),\n            name: n.to_owned(),\n            symbol_range: ast::Range::new(lookup, sp1, sp2),\n            full_range: ast::Range::new(lookup, fp1, fp2),\n        }\n    }\n}\n\n// e.g. x OR', ["C02"]),
        ("C03:`for` no longer reserved", "aidl.lalrpop", "float|for|goto", "float|goto", ["C03"]),
        ("C03:`do` no longer reserved", "aidl.lalrpop", "default|do|double", "default|double", ["C03"]),
        ("C03:validation drops syntax diagnostics of files with a tree", "validation.rs", "            let mut ast = match fr.ast {\n                Some(f) => f,", "            fr.diagnostics.clear();\n            let mut ast = match fr.ast {\n                Some(f) => f,", ["C03"]),
        ("C03:error recovery diagnostic swallowed for enum elements", "aidl.lalrpop", 'if let Some(d) = Diagnostic::from_error_recovery("Invalid enum element", lookup, <>) {\n            diagnostics.push(d);\n        }', 'if let Some(_d) = Diagnostic::from_error_recovery("Invalid enum element", lookup, <>) {\n        }', ["C03"]),
        ("C04:columns counted in bytes", "ast.rs", "line_col: lookup.get_by_cluster(offset),", "line_col: lookup.get(offset),", ["C04"]),
        ("C04:unknown type reported on the full range", "validation.rs", 'range: type_.symbol_range.clone(),\n        message: format!("Unknown type `{}`", type_.name),', 'range: type_.full_range.clone(),\n        message: format!("Unknown type `{}`", type_.name),', ["C04", "C05"]),
        ("C04:EOF error one past the end", "diagnostic.rs", "range: Range::new(lookup, location, location),\n                hint: None,\n                related_infos: Vec::new(),\n            }),\n            lalrpop_util::ParseError::UnrecognizedToken", "range: Range::new(lookup, location.saturating_sub(1), location),\n                hint: None,\n                related_infos: Vec::new(),\n            }),\n            lalrpop_util::ParseError::UnrecognizedToken", ["C04"]),
        ("C04:const full range starts at the type", "aidl.lalrpop", "<fp1:@L> CONST <t:Type>", "CONST <fp1:@L> <t:Type>", ["C04"]),
        ("C04:arg symbol range covers the type", "aidl.lalrpop", "symbol_range: ast::Range::new(&lookup, sp1, p2),\n            full_range: ast::Range::new(&lookup, p0, p2),", "symbol_range: ast::Range::new(&lookup, p0, p2),\n            full_range: ast::Range::new(&lookup, p0, p2),", ["C04", "C16"]),
        ("C05:suffix match without the dot", "validation.rs", 'import_path.ends_with(&format!(".{}", type_.name))', "import_path.ends_with(&type_.name)", ["C05"]),
        ("C05:forward declaration matched although qualified", "validation.rs", ".find(|import_path| &type_.name == *import_path && !import_path.contains('.'))", ".find(|import_path| &type_.name == *import_path)", ["C05"]),
        ("C05:builtin check before imports", "validation.rs", "    // Unresolved type is in import path?\n", "    if let Some(android) = ast::AndroidTypeKind::from_name(&type_.name) {\n        type_.kind = ast::TypeKind::AndroidType(android);\n        return;\n    }\n    // Unresolved type is in import path?\n", ["C05"]),
        ("C06:unresolved and unused swapped", "validation.rs", 'message: format!("Unresolved import `{qualified_import}`"),\n                context_message: Some("unresolved import".to_owned()),', 'message: format!("Unused import `{qualified_import}`"),\n                context_message: Some("unused import".to_owned()),', ["C06"]),
        ("C06:usage warning for every declaration", "validation.rs", "if !resolved.contains(&qualified_import) {\n            // No type resolved for this import\n            diagnostics.push(Diagnostic {\n                kind: DiagnosticKind::Warning,\n                range: declared_parcelable.symbol_range.clone(),", "if false {\n            // No type resolved for this import\n            diagnostics.push(Diagnostic {\n                kind: DiagnosticKind::Warning,\n                range: declared_parcelable.symbol_range.clone(),", ["C06"]),
        ("C06:duplicate import is a warning", "validation.rs", 'kind: DiagnosticKind::Error,\n                        range: import.symbol_range.clone(),\n                        message: format!("Duplicated import', 'kind: DiagnosticKind::Warning,\n                        range: import.symbol_range.clone(),\n                        message: format!("Duplicated import', ["C06"]),
        ("C07:oneway direction check uses explicit flag before propagation", "validation.rs", "            if let ast::Item::Interface(ref mut interface) = ast.item {\n                // Set up oneway interface (adjust methods to be oneway)\n                set_up_oneway_interface(interface, &mut fr.diagnostics);\n            }\n\n            // Check methods (e.g.: return type of async methods)\n            check_methods(&ast, &mut fr.diagnostics);", "            // Check methods (e.g.: return type of async methods)\n            check_methods(&ast, &mut fr.diagnostics);\n\n            if let ast::Item::Interface(ref mut interface) = ast.item {\n                // Set up oneway interface (adjust methods to be oneway)\n                set_up_oneway_interface(interface, &mut fr.diagnostics);\n            }", ["C07", "C10"]),
        ("C07:missing direction reported at the end of the type", "validation.rs", "ast::Direction::Unspecified => ast::Range {\n                start: arg.arg_type.symbol_range.start.clone(),\n                end: arg.arg_type.symbol_range.start.clone(),", "ast::Direction::Unspecified => ast::Range {\n                start: arg.arg_type.symbol_range.end.clone(),\n                end: arg.arg_type.symbol_range.end.clone(),", ["C07"]),
        ("C08:raw map warning dropped", "validation.rs", '                0 => {\n                    diagnostics.push(Diagnostic {\n                        kind: DiagnosticKind::Warning,\n                        message: String::from("Declaring a non-generic map', '                0 => return,\n                99 => {\n                    diagnostics.push(Diagnostic {\n                        kind: DiagnosticKind::Warning,\n                        message: String::from("Declaring a non-generic map', ["C08"]),
        ("C08:map key check accepts CharSequence", "validation.rs", 'if !matches!(type_.kind, ast::TypeKind::String if type_.name == "String") {', "if !matches!(type_.kind, ast::TypeKind::String | ast::TypeKind::CharSequence) {", ["C08"]),
        ("C09:mixed raised on every later method", "validation.rs", "let is_mixed_now_with_id = first_method_with_id.is_none()\n            && first_method_without_id.is_some()", "let is_mixed_now_with_id = first_method_without_id.is_some()", ["C09"]),
        ("C09:duplicate id points to itself", "validation.rs", "range: oe.get().transact_code_range.clone(),", "range: method.transact_code_range.clone(),", ["C09"]),
        ("C09:name repeats still register their code", "validation.rs", '                }]),\n            });\n            return;\n        }\n\n        method_names.insert', '                }]),\n            });\n        }\n\n        method_names.insert', ["C09"]),
        ("C10:redundant oneway warning on the method name", "validation.rs", "range: method.oneway_range.clone(),", "range: method.symbol_range.clone(),", ["C10"]),
        ("C10:first method not propagated", "validation.rs", "        .for_each(|method| {\n            if method.oneway {", "        .skip(1)\n        .for_each(|method| {\n            if method.oneway {", ["C10"]),
        ("C10:return check on CharSequence too lenient", "validation.rs", "if method.oneway && method.return_type.kind != ast::TypeKind::Void {", "if method.oneway && method.return_type.kind != ast::TypeKind::Void && method.return_type.kind != ast::TypeKind::CharSequence {", ["C10"]),
        ("C11:sort by line again", "validation.rs", "fr.diagnostics.sort_by_key(|d| d.range.start.offset);", "fr.diagnostics.sort_by_key(|d| d.range.start.line_col.0);", ["C11"]),
        ("C11:matching import picked by hash order", "validation.rs", "        .min()\n    {", "        .next()\n    {", ["C11"]),
        ("C11:conflicting import picked by hash order", "validation.rs", ".min_by_key(|(qualified_import, _)| *qualified_import)", ".next()", ["C11"]),
        ("C11:kind of a shared key decided by hash order", "parser.rs", "Some(previous) if rank(previous) <= rank(&kind) => (),", "Some(_) if false => (),", ["C11"]),
        ("C12:remove ignored for files without a tree", "parser.rs", "self.lalrpop_results.remove(&id);", "if self.lalrpop_results.get(&id).map_or(false, |r| r.ast.is_some()) {\n            self.lalrpop_results.remove(&id);\n        }", ["C12"]),
        ("C12:failed add_file inserts an empty file", "parser.rs", "let mut file = std::fs::File::open(path.as_ref())?;", "let mut file = match std::fs::File::open(path.as_ref()) {\n            Ok(f) => f,\n            Err(e) => {\n                self.add_content(PathBuf::from(path.as_ref()), \"\");\n                return Err(e);\n            }\n        };", ["C12"]),
        ("C12:unparsable replacement keeps the old entry", "parser.rs", "        self.lalrpop_results.insert(id, lalrpop_result);", "        if lalrpop_result.ast.is_some() || !self.lalrpop_results.contains_key(&id) {\n            self.lalrpop_results.insert(id, lalrpop_result);\n        }", ["C12"]),
        ("C13:unknown type error suppressed when any file defines that simple name", "validation.rs", "    // Unresolved type\n    diagnostics.push(Diagnostic {", "    // Unresolved type\n    if defined.keys().any(|k| k.ends_with(&format!(\".{}\", type_.name))) {\n        return;\n    }\n    diagnostics.push(Diagnostic {", ["C13", "C05"]),
        ("C14:no recovery point for parcelable elements", "aidl.lalrpop", '    <c:Const> => Some(ast::ParcelableElement::Const(c)),\n    ! =>? {\n        if let Some(d) = Diagnostic::from_error_recovery("Invalid parcelable element", lookup, <>) {\n            diagnostics.push(d);\n        }\n        Ok(None)\n    },', "    <c:Const> => Some(ast::ParcelableElement::Const(c)),", ["C14"]),
        ("C14:members after the first error are dropped", "aidl.lalrpop", "let elements: Vec<ast::ParcelableElement> = v.into_iter().flatten().collect();", "let elements: Vec<ast::ParcelableElement> = v.into_iter().take_while(Option::is_some).flatten().collect();", ["C14"]),
        ("C15:imports visited after the item", "traverse.rs", "        for import in &ast.imports {\n            f(Symbol::Import(import))?;\n        }\n    }\n\n    match ast.item {", "    }\n\n    if false {\n    }\n\n    match ast.item {", ["C15"]),
        ("C15:ItemsAndItemElements skips constants of interfaces", "traverse.rs", "                ast::InterfaceElement::Const(c) => {\n                    f(Symbol::Const(c, ConstOwner::Interface(i)))?;", "                ast::InterfaceElement::Const(c) => {\n                    if let SymbolFilter::All = filter {\n                        f(Symbol::Const(c, ConstOwner::Interface(i)))?;\n                    }", ["C15"]),
        ("C15:walk_methods yields nothing for oneway... (skips first)", "traverse.rs", "                ast::InterfaceElement::Method(m) => f(m),\n                ast::InterfaceElement::Const(_) => (),\n            });\n        }\n        ast::Item::Parcelable(_) => (),\n        ast::Item::Enum(_) => (),\n    }\n}\n\n/// Traverse the AST and provide the method arguments", "                ast::InterfaceElement::Method(m) if !m.args.is_empty() || m.transact_code.is_none() => f(m),\n                _ => (),\n            });\n        }\n        ast::Item::Parcelable(_) => (),\n        ast::Item::Enum(_) => (),\n    }\n}\n\n/// Traverse the AST and provide the method arguments", ["C15", "C09"]),
        ("C16:range end exclusive", "traverse.rs", "range.end.line_col.0 == line_col.0 && range.end.line_col.1 < line_col.1", "range.end.line_col.0 == line_col.0 && range.end.line_col.1 <= line_col.1", ["C16"]),
        ("C16:columns compared before lines", "traverse.rs", "    if range.start.line_col.0 > line_col.0 {\n        return false;\n    }\n", "    if range.start.line_col.1 > line_col.1 && range.start.line_col.0 >= line_col.0 {\n        return false;\n    }\n", ["C16"]),
        ("C16:get_range of a method is its full range", "symbol.rs", "Symbol::Method(m, _) => &m.symbol_range,", "Symbol::Method(m, _) => &m.full_range,", ["C16"]),
        ("C17:const qualified with the package", "symbol.rs", 'Symbol::Const(c, o) => Some(format!("{}::{}", o.get_name(), c.name)),', 'Symbol::Const(c, _) => Some(format!("{}", c.name)),', ["C17"]),
        ("C17:key built from the last package segment", "ast.rs", 'format!("{}.{}", self.package.name, self.item.get_name())', 'format!("{}.{}", self.package.name.rsplit(\'.\').next().unwrap_or(""), self.item.get_name())', ["C17", "C05"]),
        ("C18:tab ends the whitespace skip", "javadoc.rs", "current != ' ' && current != '\\n' && current != '\\r' && current != '\\t'", "current != ' ' && current != '\\n' && current != '\\r'", ["C18"]),
        ("C18:method doc looked up after the annotations", "aidl.lalrpop", "doc: javadoc::get_javadoc(input, p0),\n            transact_code:", "doc: javadoc::get_javadoc(input, fp1),\n            transact_code:", ["C18"]),
        ("C18:tag newline regex loses the preceding character", "javadoc.rs", 're.replace_all(&s, "${1}\\n@")', 're.replace_all(&s, "\\n@")', ["C18"]),
        ("C19:field value has no default", "ast.rs", '    #[serde(default, skip_serializing_if = "Option::is_none")]\n    pub value: Option<String>,\n    #[serde(default, skip_serializing_if = "Vec::is_empty")]', '    #[serde(skip_serializing_if = "Option::is_none")]\n    pub value: Option<String>,\n    #[serde(default, skip_serializing_if = "Vec::is_empty")]', ["C19"]),
        ("C19:direction skip predicate negated", "ast.rs", "matches!(self, Self::Unspecified)", "!matches!(self, Self::Unspecified)", ["C19"]),
        ("C20:last expected token dropped", "diagnostic.rs", 'v[0..v.len() - 2].join(", "),\n            v[v.len() - 1]', 'v[0..v.len() - 2].join(", "),\n            v[v.len() - 2]', ["C20"]),
        ("C20:two expected tokens print the first twice", "diagnostic.rs", '2 => format!("Expected {} or {}", v[0], v[1]),', '2 => format!("Expected {} or {}", v[0], v[0]),', ["C20"]),
        ("C20:single expected token not printed", "diagnostic.rs", '1 => format!("Expected {}", v[0]),', "1 => String::new(),", ["C20"]),
        ("C01:unwrap on parse error diagnostic", "parser.rs", "if let Some(diagnostic) = Diagnostic::from_parse_error(&lookup, e) {\n                    diagnostics.push(diagnostic)\n                }", "diagnostics.push(Diagnostic::from_parse_error(&lookup, e).filter(|d| d.range.start.offset > 0 || d.range.end.offset > 0).unwrap());", ["C01"]),
        ("C01:validate drops files without a tree and many diagnostics", "parser.rs", "validation::validate(keys, self.lalrpop_results.clone())", "validation::validate(keys, self.lalrpop_results.clone()).into_iter().filter(|(_, r)| r.ast.is_some() || r.diagnostics.len() < 4).collect()", ["C01", "C12"]),
    ]
    for name, file, old, new, checks in H:
        ms.append(dict(name=name, file=file, old=old, new=new, occ=0, checks=checks))
    return ms


def main():
    only = None
    run_tests = True
    args = sys.argv[1:]
    if "--only" in args:
        only = args[args.index("--only") + 1]
    if "--no-tests" in args:
        run_tests = False
    setup()
    os.makedirs(OUT, exist_ok=True)
    results = []
    ms = mutants()
    if only:
        ms = [m for m in ms if only in m["name"]]
    print(f"{len(ms)} mutants", flush=True)
    # baseline: harness builds and checks are silent in the scratch area
    for i, m in enumerate(ms):
        restore()
        path = f"{S}/repo/src/{m['file']}"
        text = open(path).read()
        new = nth_replace(text, m["old"], m["new"], m["occ"])
        r = dict(name=m["name"], file=m["file"], checks={})
        if new is None:
            r["status"] = "pattern-not-found"
            results.append(r)
            print(f"[{i}] {m['name']}: pattern not found", flush=True)
            continue
        open(path, "w").write(new)
        t0 = time.time()
        if run_tests:
            rc, out = sh("cargo test --offline --no-fail-fast 2>&1 | grep -E '^test result|^error' ", cwd=f"{S}/repo", timeout=1200)
            failed = sum(int(x) for x in re.findall(r"(\d+) failed", out))
            passed = sum(int(x) for x in re.findall(r"(\d+) passed", out))
            r["existing_tests"] = "compile-error" if ("error" in out and passed == 0) else f"{passed} passed, {failed} failed"
        rc, out = sh("cargo build --release --offline 2>&1 | grep -E '^error' -A5 | head -20", cwd=f"{S}/harness", timeout=1200)
        if out.strip():
            r["status"] = "does-not-compile"
            r["build_error"] = out[:400]
            results.append(r)
            print(f"[{i}] {m['name']}: does not compile", flush=True)
            continue
        r["status"] = "ran"
        for c in m["checks"]:
            rc, out = sh(f"{S}/target/release/harness {c} --tier quick --seed 1 2>&1 | grep -E '^{c} |violation \\[' | head -3", cwd=S, timeout=1800)
            rc2, _ = sh(f"{S}/target/release/harness {c} --tier quick --seed 1 >/dev/null 2>&1; echo $?", cwd=S) if False else (0, "")
            detected = "violations=0" not in out.split("\n")[0] if out.strip() else None
            r["checks"][c] = dict(detected=detected, first=out.strip().split("\n")[1][:240] if len(out.strip().split("\n")) > 1 else out.strip()[:240])
        r["seconds"] = round(time.time() - t0, 1)
        results.append(r)
        print(f"[{i}] {m['name']}: tests={r.get('existing_tests')} " + " ".join(f"{c}={'CAUGHT' if v['detected'] else 'missed'}" for c, v in r["checks"].items()), flush=True)
        if not only:
            json.dump(results, open(f"{OUT}/sweep_results.json", "w"), indent=1)
    restore()
    json.dump(results, open(f"{OUT}/sweep_results{'_' + only.replace(' ', '_')[:20] if only else ''}.json", "w"), indent=1)
    if only:
        return
    # table
    with open(f"{OUT}/SWEEP.md", "w") as f:
        f.write("# Own mutation sweep (tools/mutsweep.py)\n\nMechanical and hand-written mutants applied to a scratch copy of /repo; `existing tests` = the repository's own suite on the mutant; then the listed quick checks.\n\n| mutant | existing tests | checks |\n|---|---|---|\n")
        for r in results:
            cs = ", ".join(f"{c}: {'caught' if v['detected'] else 'MISSED'}" for c, v in r.get("checks", {}).items()) or r.get("status")
            f.write(f"| {r['name']} | {r.get('existing_tests', '-')} | {cs} |\n")


if __name__ == "__main__":
    main()
