mod reflex; mod earley;
use aidl_parser::Parser;
use reflex::{lex, K};
struct R(u64);
impl R{ fn n(&mut self)->u64{ self.0^=self.0<<13; self.0^=self.0>>7; self.0^=self.0<<17; self.0 } fn below(&mut self,n:usize)->usize{ (self.n()%(n as u64)) as usize } }

fn code_ok(text:&str, toks:&[reflex::Tok]) -> bool {
  // every "= INTEGER" directly after ")" must fit u32 (method transact code)
  for w in toks.windows(3){ if w[0].kind==K::RParen && w[1].kind==K::Eq && w[2].kind==K::Integer { let s=&text[w[2].start..w[2].end]; if s.parse::<u32>().is_err(){return false;} } }
  true
}

fn main(){
  let g = earley::build(earley::AIDL_BNF);
  let start = g.nt("Aidl");
  let toks = ["package","import","interface","parcelable","enum","oneway","const","in","out","inout","void","int","byte","String","CharSequence","List","Map","\"s\"","\"é\"","true","false","@A","@B","(",")","{","}","[","]","<",">","=",".",",",";","-","x","Foo","a.b.C","p","12","1.5f","-3","99999999999","/**é*/","/* c */","// lc é\n","/**/","\u{a0}","\u{2028}","\r\n","\n"," ","\t","for","class","\"","/*","/","#","@","٣","３",".5","+7","007","4294967295","4294967296","doubles","inoutx","_","Listing"];
  let goods = [
    "package p; interface I { void f(in List<Foo> x, int y) = 3; const int K = {1 2, 3,}; oneway void g(); }",
    "package a.b; import x.Y; import z.w.V; @A parcelable Q; parcelable r.S; @B(k=1, j) oneway interface I { @C Map<String,Foo[]> m(inout @D Bar b,) ; }",
    "package p; parcelable P { int a = -.5f; const String S = A.B; List<Foo>[] l; Map m = {}; }",
    "package p; @E enum E { A = 1, @X(a, b=\"s\") B, C = true, }",
    "package p; enum E { }",
  ];
  let seed: u64 = std::env::args().nth(1).and_then(|s|s.parse().ok()).unwrap_or(1);
  let n: usize = std::env::args().nth(2).and_then(|s|s.parse().ok()).unwrap_or(20000);
  let mut r=R(seed*0x9E3779B97F4A7C15+1);
  let (mut agree_ok, mut agree_bad, mut dis, mut first_ok, mut first_bad, mut inval)=(0,0,0,0,0,0);
  for i in 0..n {
    // mutate a good doc at token level using reference lexer's token boundaries
    let base = goods[r.below(goods.len())];
    let bl = lex(base); assert!(bl.invalid_at.is_none());
    let mut pieces: Vec<String> = bl.toks.iter().map(|t| base[t.start..t.end].to_string()).collect();
    let nm = r.below(4);
    for _ in 0..nm { if pieces.is_empty(){break;} let p=r.below(pieces.len()); match r.below(4){ 0=>{pieces.remove(p);} 1=>{pieces.insert(p, toks[r.below(toks.len())].to_string());} 2=>{pieces[p]=toks[r.below(toks.len())].to_string();} _=>{ let q=r.below(pieces.len()); pieces.swap(p,q);} } }
    let seps=[" ","  ","\n","\t"," /*c*/ ","\u{a0}"," "," "];
    let mut text=String::new(); for p in &pieces { text.push_str(p); text.push_str(seps[r.below(seps.len())]); }
    let lr = lex(&text);
    let kinds: Vec<K> = lr.toks.iter().map(|t|t.kind).collect();
    let out = earley::recognize(&g,start,&kinds);
    let ref_ok = lr.invalid_at.is_none() && out.accepted && code_ok(&text,&lr.toks);
    // expected first error position
    let exp_first: Option<(usize,usize)> = if let Some(e)=out.error_at { if e<lr.toks.len(){ Some((lr.toks[e].start, lr.toks[e].end)) } else if let Some(p)=lr.invalid_at { Some((p,p)) } else { let e=lr.toks.last().map(|t|t.end).unwrap_or(0); Some((e,e)) } } else if let Some(p)=lr.invalid_at { Some((p,p)) } else { None };
    let mut p=Parser::new(); p.add_content(0,&text);
    let pr=&p.verif_parse_results()[&0];
    let lib_ok = pr.ast.is_some() && pr.diagnostics.is_empty();
    if lib_ok==ref_ok { if lib_ok {agree_ok+=1} else {agree_bad+=1} } else { dis+=1; if dis<6 { println!("DISAGREE #{i} ref_ok={ref_ok} lib_ok={lib_ok} text={:?}\n  diags={:?}", text, pr.diagnostics.iter().map(|d|(&d.message,d.range.start.offset)).collect::<Vec<_>>()); } }
    if !lib_ok && !ref_ok { if let (Some(d), Some(e))=(pr.diagnostics.first(), exp_first) {
        // transact-code overflow diag may come first only if no earlier syntax error; skip those where Earley accepted
        if out.accepted && lr.invalid_at.is_none() { } else if (d.range.start.offset,d.range.end.offset)==e || lr.invalid_at.map_or(false, |p| (d.range.start.offset,d.range.end.offset)==(p,p)) { first_ok+=1 } else { first_bad+=1; if first_bad<6 { println!("FIRSTERR #{i} exp={:?} got=[{}..{}] {:?} text={:?}", e, d.range.start.offset,d.range.end.offset,d.message,text); } } } }
    if lr.invalid_at.is_some(){inval+=1;}
  }
  println!("n={n} agree_ok={agree_ok} agree_bad={agree_bad} disagree={dis} first_ok={first_ok} first_bad={first_bad} lex_invalid={inval}");
}
